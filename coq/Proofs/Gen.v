(* Proofs/Gen.v — the generator's decision layer refines a declarative specification
   (which dictionaries are accepted, what is emitted), ignored attributes leave no
   trace, and the output does not depend on the order of declaration (C17). *)
From Radius Require Import Base.Bytes Base.Res Gen.Consts Model.Gen.
From Coq Require Import ZifyBool ZifyNat ZifyN Permutation.
Open Scope Z_scope.

(* ---- sort.Stable as insertion sort: the result is the unique sorted permutation ---- *)
Section SortFacts.
Context {A : Type} (lt : A -> A -> bool).
Hypothesis lt_asym : forall x y, lt x y = true -> lt y x = false.
Hypothesis lt_trans_neg : forall x y z, lt z x = true -> lt x y = true -> lt z y = true.
(* incomparable is transitive (a strict weak order) *)
Hypothesis lt_incomp : forall x y z, lt x y = false -> lt y z = false -> lt x z = false.

Inductive sorted : list A -> Prop :=
| sorted_nil : sorted []
| sorted_cons x l : Forall (fun y => lt y x = false) l -> sorted l -> sorted (x :: l).

Lemma insert_perm x l : Permutation (x :: l) (insert lt x l).
Proof.
  induction l as [|y r IH]; cbn [insert]; [reflexivity|].
  destruct (lt x y); [reflexivity|]. rewrite perm_swap. apply perm_skip, IH.
Qed.
Lemma sort_perm l : Permutation l (sort lt l).
Proof.
  induction l as [|x l IH]; cbn [sort fold_right]; [reflexivity|].
  etransitivity; [apply perm_skip, IH|apply insert_perm].
Qed.

Lemma insert_sorted x l : sorted l -> sorted (insert lt x l).
Proof.
  induction 1 as [|y r Hy Hs IH]; cbn [insert].
  - constructor; constructor.
  - destruct (lt x y) eqn:E.
    + constructor; [|constructor; assumption]. constructor; [apply lt_asym, E|].
      eapply Forall_impl; [|exact Hy]. cbv beta. intros z Hz.
      destruct (lt z x) eqn:Ezx; [|reflexivity]. rewrite (lt_trans_neg x y z Ezx E) in Hz. discriminate.
    + constructor; [|exact IH].
      assert (Hp : Permutation (x :: r) (insert lt x r)) by apply insert_perm.
      eapply Permutation_Forall; [exact Hp|]. constructor; assumption.
Qed.
Lemma sort_sorted l : sorted (sort lt l).
Proof. induction l as [|x l IH]; cbn [sort fold_right]; [constructor|apply insert_sorted, IH]. Qed.

(* two sorted permutations of each other are equal, when distinct elements are comparable *)
Lemma sorted_unique : forall l l', sorted l -> sorted l' -> Permutation l l' ->
  (forall x y, In x l -> In y l -> lt x y = false -> lt y x = false -> x = y) -> l = l'.
Proof.
  induction l as [|x l IH]; intros l' Hs Hs' Hp Ht.
  - apply Permutation_nil in Hp. subst. reflexivity.
  - destruct l' as [|x' l'']; [apply Permutation_sym, Permutation_nil in Hp; discriminate|].
    inversion Hs as [|? ? Hx Hsl]; subst. inversion Hs' as [|? ? Hx' Hsl']; subst.
    assert (Exx : x = x').
    { assert (Hin' : In x' (x :: l)) by (eapply Permutation_in; [apply Permutation_sym, Hp|left; reflexivity]).
      assert (Hin : In x (x' :: l'')) by (eapply Permutation_in; [exact Hp|left; reflexivity]).
      destruct Hin' as [E|Hin']; [exact E|]. destruct Hin as [E|Hin]; [symmetry; exact E|].
      rewrite Forall_forall in Hx, Hx'. apply Ht; [left; reflexivity|right; exact Hin'| |].
      - apply Hx', Hin.
      - apply Hx, Hin'. }
    subst x'. f_equal. apply IH; try assumption.
    + eapply Permutation_cons_inv, Hp.
    + intros a b Ha Hb. apply Ht; right; assumption.
Qed.

Theorem sort_of_permutation l l' : Permutation l l' ->
  (forall x y, In x l -> In y l -> lt x y = false -> lt y x = false -> x = y) -> sort lt l = sort lt l'.
Proof.
  intros Hp Ht. apply sorted_unique; try apply sort_sorted.
  - etransitivity; [apply Permutation_sym, sort_perm|]. etransitivity; [exact Hp|apply sort_perm].
  - intros x y Hx Hy. apply Ht; eapply Permutation_in; try (apply Permutation_sym, sort_perm); assumption.
Qed.
End SortFacts.

Lemma sort_ext {A} (lt lt' : A -> A -> bool) (l : list A) :
  (forall x y, In x l -> In y l -> lt x y = lt' x y) -> sort lt l = sort lt' l.
Proof.
  induction l as [|x l IH]; intros H; [reflexivity|]. cbn [sort fold_right].
  change (fold_right (insert lt) [] l) with (sort lt l). change (fold_right (insert lt') [] l) with (sort lt' l).
  rewrite <- IH by (intros a b Ha Hb; apply H; right; assumption).
  assert (Hin : forall y, In y (sort lt l) -> In y l).
  { intros y Hy. eapply Permutation_in; [apply Permutation_sym, sort_perm|exact Hy]. }
  revert Hin. generalize (sort lt l) as s. induction s as [|y s IHs]; intros Hin; [reflexivity|].
  cbn [insert]. rewrite (H x y (or_introl eq_refl) (or_intror (Hin y (or_introl eq_refl)))).
  destruct (lt' x y); [reflexivity|]. f_equal. apply IHs. intros z Hz. apply Hin. right. exact Hz.
Qed.

(* ---- the Less functions are strict orders ---- *)
Lemma bytes_lt_irrefl a : bytes_lt a a = false.
Proof. induction a as [|x a IH]; [reflexivity|]. cbn [bytes_lt]. rewrite N.ltb_irrefl. exact IH. Qed.
Lemma bytes_lt_asym : forall a b, bytes_lt a b = true -> bytes_lt b a = false.
Proof.
  induction a as [|x a IH]; intros [|y b]; cbn [bytes_lt]; intros H; try discriminate; try reflexivity.
  destruct (x <? y)%N eqn:E1; destruct (y <? x)%N eqn:E2; try lia; try discriminate; try reflexivity; try (apply IH, H).
Qed.
Lemma bytes_lt_trans : forall a b c, bytes_lt a b = true -> bytes_lt b c = true -> bytes_lt a c = true.
Proof.
  induction a as [|x a IH]; intros [|y b] [|z c]; cbn [bytes_lt]; intros H1 H2; try discriminate; try reflexivity.
  destruct (x <? y)%N eqn:E1; destruct (y <? x)%N eqn:E2; destruct (y <? z)%N eqn:E3; destruct (z <? y)%N eqn:E4;
    destruct (x <? z)%N eqn:E5; destruct (z <? x)%N eqn:E6; try lia; try discriminate; try reflexivity; try (eapply IH; eassumption).
Qed.
Lemma bytes_lt_trich : forall a b, bytes_lt a b = false -> bytes_lt b a = false -> a = b.
Proof.
  induction a as [|x a IH]; intros [|y b]; cbn [bytes_lt]; intros H1 H2; try discriminate; try reflexivity.
  destruct (x <? y)%N eqn:E1; destruct (y <? x)%N eqn:E2; try discriminate.
  assert (x = y) by lia. subst. f_equal. apply IH; assumption.
Qed.

(* a number first, then a name *)
Definition lex2 (n1 : Z) (s1 : bytes) (n2 : Z) (s2 : bytes) : bool :=
  if negb (n1 =? n2) then n1 <? n2 else bytes_lt s1 s2.
Lemma lex2_asym n1 s1 n2 s2 : lex2 n1 s1 n2 s2 = true -> lex2 n2 s2 n1 s1 = false.
Proof.
  unfold lex2. destruct (n1 =? n2) eqn:E; cbn [negb].
  - rewrite Z.eqb_sym, E. cbn [negb]. apply bytes_lt_asym.
  - rewrite Z.eqb_sym, E. cbn [negb]. lia.
Qed.
Lemma lex2_trans n1 s1 n2 s2 n3 s3 : lex2 n1 s1 n2 s2 = true -> lex2 n2 s2 n3 s3 = true -> lex2 n1 s1 n3 s3 = true.
Proof.
  unfold lex2. destruct (n1 =? n2) eqn:E1; destruct (n2 =? n3) eqn:E2; destruct (n1 =? n3) eqn:E3; cbn [negb]; try lia.
  apply bytes_lt_trans.
Qed.
Lemma lex2_trich n1 s1 n2 s2 : lex2 n1 s1 n2 s2 = false -> lex2 n2 s2 n1 s1 = false -> n1 = n2 /\ s1 = s2.
Proof.
  unfold lex2. destruct (n1 =? n2) eqn:E1; rewrite (Z.eqb_sym n2 n1), E1; cbn [negb]; [|lia].
  intros H1 H2. split; [lia|apply bytes_lt_trich; assumption].
Qed.

(* attributes: after validation every number is a single component *)
Definition attr_lt1 (a b : gattr) : bool := lex2 (hd 0 (ga_oid a)) (ga_name a) (hd 0 (ga_oid b)) (ga_name b).
Definition single (a : gattr) : Prop := length (ga_oid a) = 1%nat.
Lemma attr_lt_single a b : single a -> single b -> attr_lt a b = attr_lt1 a b.
Proof.
  unfold single, attr_lt, attr_lt1, lex2, oid_cmp_lt. destruct (ga_oid a) as [|x [|? ?]]; try discriminate.
  destruct (ga_oid b) as [|y [|? ?]]; try discriminate. intros _ _. cbn [length hd oid_lt tl Nat.add].
  rewrite (Z.eqb_sym y x). destruct (x =? y) eqn:E; cbn [negb].
  - destruct (x <? y) eqn:E1; [lia|]. reflexivity.
  - destruct (x <? y) eqn:E1; [reflexivity|]. destruct (y <? x) eqn:E2; [reflexivity|lia].
Qed.

Definition value_lt3 (a b : gvalue) : bool :=
  if negb (gl_num a =? gl_num b) then gl_num a <? gl_num b
  else if negb (beq (gl_attr a) (gl_attr b)) then bytes_lt (gl_attr a) (gl_attr b)
  else bytes_lt (gl_name a) (gl_name b).
Lemma value_lt_eq a b : value_lt a b = value_lt3 a b. Proof. reflexivity. Qed.

Lemma value_lt_asym a b : value_lt a b = true -> value_lt b a = false.
Proof.
  unfold value_lt. destruct (gl_num a =? gl_num b) eqn:E; rewrite (Z.eqb_sym (gl_num b)), E; cbn [negb]; [|lia].
  destruct (beq (gl_attr a) (gl_attr b)) eqn:Eb.
  - apply beq_spec in Eb. rewrite Eb, beq_refl. cbn [negb]. apply bytes_lt_asym.
  - assert (Eb' : beq (gl_attr b) (gl_attr a) = false).
    { apply beq_false. apply beq_false in Eb. congruence. }
    rewrite Eb'. cbn [negb]. apply bytes_lt_asym.
Qed.
Lemma value_lt_trans a b c : value_lt a b = true -> value_lt b c = true -> value_lt a c = true.
Proof.
  unfold value_lt.
  destruct (gl_num a =? gl_num b) eqn:E1; destruct (gl_num b =? gl_num c) eqn:E2; destruct (gl_num a =? gl_num c) eqn:E3;
    cbn [negb]; try lia.
  destruct (beq (gl_attr a) (gl_attr b)) eqn:B1; destruct (beq (gl_attr b) (gl_attr c)) eqn:B2; cbn [negb].
  - apply beq_spec in B1, B2. rewrite B1, B2, beq_refl. cbn [negb]. apply bytes_lt_trans.
  - apply beq_spec in B1. rewrite B1, B2. cbn [negb]. intros _ H. exact H.
  - apply beq_spec in B2. rewrite <- B2, B1. cbn [negb]. intros H _. exact H.
  - intros H1 H2. pose proof (bytes_lt_trans _ _ _ H1 H2) as H3.
    destruct (beq (gl_attr a) (gl_attr c)) eqn:B3; cbn [negb]; [|exact H3].
    apply beq_spec in B3. rewrite B3, bytes_lt_irrefl in H3. discriminate.
Qed.
Lemma value_lt_trich a b : value_lt a b = false -> value_lt b a = false ->
  gl_num a = gl_num b /\ gl_attr a = gl_attr b /\ gl_name a = gl_name b.
Proof.
  unfold value_lt. destruct (gl_num a =? gl_num b) eqn:E; rewrite (Z.eqb_sym (gl_num b)), E; cbn [negb]; [|lia].
  destruct (beq (gl_attr a) (gl_attr b)) eqn:Eb.
  - apply beq_spec in Eb. rewrite Eb, beq_refl. cbn [negb]. intros H1 H2.
    repeat split; [lia|apply bytes_lt_trich; assumption].
  - assert (Eb' : beq (gl_attr b) (gl_attr a) = false).
    { apply beq_false. apply beq_false in Eb. congruence. }
    rewrite Eb'. cbn [negb]. intros H1 H2. apply beq_false in Eb. destruct Eb. apply bytes_lt_trich; assumption.
Qed.

(* ---- membership ---- *)
Lemma mem_In x l : mem x l = true <-> In x l.
Proof.
  unfold mem. rewrite existsb_exists. split.
  - intros (y & Hy & E). apply beq_spec in E. subst. exact Hy.
  - intros H. exists x. split; [exact H|apply beq_refl].
Qed.
Lemma mem_false x l : mem x l = false <-> ~ In x l.
Proof. rewrite <- mem_In. destruct (mem x l); split; congruence. Qed.
Lemma mem_same x l l' : (forall y, In y l <-> In y l') -> mem x l = mem x l'.
Proof.
  intros H. destruct (mem x l') eqn:E.
  - apply mem_In. apply H. apply mem_In. exact E.
  - apply mem_false. intros Hin. apply H in Hin. apply mem_In in Hin. congruence.
Qed.

(* ---- the validation loop against its specification ---- *)
Definition live (ign : list bytes) (l : list gattr) : list gattr := filter (fun a => negb (mem (ga_name a) ign)) l.
Definition idents (l : list gattr) : list bytes := map ga_ident l.

(* accepted: every live attribute is valid, their identifiers are pairwise distinct and new *)
Definition attrs_ok (inv : gattr -> bool) (ign seen : list bytes) (l : list gattr) : Prop :=
  (forall a, In a (live ign l) -> inv a = false) /\ NoDup (idents (live ign l)) /\
  (forall i, In i (idents (live ign l)) -> ~ In i seen).

Lemma live_skip ign a l : mem (ga_name a) ign = true -> live ign (a :: l) = live ign l.
Proof. intros H. unfold live. cbn [filter]. rewrite H. reflexivity. Qed.
Lemma live_keep ign a l : mem (ga_name a) ign = false -> live ign (a :: l) = a :: live ign l.
Proof. intros H. unfold live. cbn [filter]. rewrite H. reflexivity. Qed.

Lemma check_attrs_spec inv e ign : forall l seen,
  match check_attrs inv e ign seen l with
  | Ok r => attrs_ok inv ign seen l /\ r = (live ign l, rev (idents (live ign l)) ++ seen)
  | Err _ => ~ attrs_ok inv ign seen l
  | _ => False
  end.
Proof.
  induction l as [|a l IH]; intros seen; cbn [check_attrs].
  - unfold attrs_ok, live, idents. cbn. repeat split; try constructor; intros; contradiction.
  - destruct (mem (ga_name a) ign) eqn:Ei; cbn [negb].
    + unfold attrs_ok. rewrite (live_skip ign a l Ei). apply IH.
    + unfold attrs_ok. rewrite (live_keep ign a l Ei). fold (attrs_ok inv ign (ga_ident a :: seen) l).
      destruct (mem (ga_ident a) seen) eqn:Es.
      * intros (_ & _ & H3). apply (H3 (ga_ident a)); [left; reflexivity|apply mem_In, Es].
      * destruct (inv a) eqn:Ev.
        -- intros (H1 & _). rewrite (H1 a (or_introl eq_refl)) in Ev. discriminate.
        -- specialize (IH (ga_ident a :: seen)).
           destruct (check_attrs inv e ign (ga_ident a :: seen) l) as [[kept seen']|x| |].
           ++ destruct IH as ((H1 & H2 & H3) & Hr). inversion Hr; subst kept seen'. split.
              ** unfold attrs_ok. cbn [idents map]. split; [|split].
                 --- intros b [<-|Hb]; [exact Ev|apply H1, Hb].
                 --- constructor; [|exact H2]. intros Hin. apply (H3 _ Hin). left. reflexivity.
                 --- intros i [<-|Hi]; [apply mem_false, Es|]. intros Hs. apply (H3 i Hi). right. exact Hs.
              ** cbn [idents map rev]. rewrite <- app_assoc. reflexivity.
           ++ intros (H1 & H2 & H3). apply IH. unfold attrs_ok. cbn [idents map] in H2, H3. split; [|split].
              ** intros b Hb. apply H1. right. exact Hb.
              ** inversion H2; assumption.
              ** intros i Hi [<-|Hs]; [inversion H2; contradiction|]. apply (H3 i); [right; exact Hi|exact Hs].
           ++ exact IH.
           ++ exact IH.
Qed.

(* ---- values ---- *)
Definition local_vals (ign local : list bytes) (l : list gvalue) : list gvalue :=
  filter (fun v => negb (mem (gl_attr v) ign) && mem (gl_attr v) local) l.
Definition ext_vals (ign local ext : list bytes) (l : list gvalue) : list gvalue :=
  filter (fun v => negb (mem (gl_attr v) ign) && negb (mem (gl_attr v) local) && mem (gl_attr v) ext) l.
Definition vals_ok (ign local ext : list bytes) (l : list gvalue) : Prop :=
  forall v, In v l -> mem (gl_attr v) ign = true \/ mem (gl_attr v) local = true \/ mem (gl_attr v) ext = true.

Lemma split_values_spec ign local ext : forall l,
  match split_values ign local ext l with
  | Ok r => vals_ok ign local ext l /\ r = (local_vals ign local l, ext_vals ign local ext l)
  | Err _ => ~ vals_ok ign local ext l
  | _ => False
  end.
Proof.
  induction l as [|v l IH]; cbn [split_values].
  - split; [intros v []|reflexivity].
  - unfold local_vals, ext_vals. cbn [filter]. fold (local_vals ign local l). fold (ext_vals ign local ext l).
    destruct (mem (gl_attr v) ign) eqn:Ei; cbn [negb andb].
    + destruct (split_values ign local ext l) as [[lo ex]|x| |]; try exact IH.
      * destruct IH as [Hok Hr]. split; [|exact Hr]. intros w [<-|Hw]; [left; exact Ei|apply Hok, Hw].
      * intros Hok. apply IH. intros w Hw. apply Hok. right. exact Hw.
    + destruct (split_values ign local ext l) as [[lo ex]|x| |]; try exact IH.
      * destruct IH as [Hok Hr]. inversion Hr; subst lo ex.
        destruct (mem (gl_attr v) local) eqn:El; cbn [negb andb].
        -- split; [|reflexivity]. intros w [<-|Hw]; [right; left; exact El|apply Hok, Hw].
        -- destruct (mem (gl_attr v) ext) eqn:Ee.
           ++ split; [|reflexivity]. intros w [<-|Hw]; [right; right; exact Ee|apply Hok, Hw].
           ++ intros H. destruct (H v (or_introl eq_refl)) as [H1|[H1|H1]]; congruence.
      * intros Hok. apply IH. intros w Hw. apply Hok. right. exact Hw.
Qed.

(* checkValues: within the attribute's width, one number per identifier *)
Definition consistent (l : list (bytes * Z)) : Prop :=
  forall i n n', In (i, n) l -> In (i, n') l -> n = n'.
Definition pairs (l : list gvalue) : list (bytes * Z) := map (fun v => (gl_ident v, gl_num v)) l.

Lemma check_vals_spec m : forall l seen, consistent seen ->
  (check_vals m seen l = None <-> (forall v, In v l -> gl_num v <= m) /\ consistent (seen ++ pairs l)).
Proof.
  induction l as [|v l IH]; intros seen Hc; cbn [check_vals].
  - unfold pairs. cbn [map]. rewrite app_nil_r. split; [intros _; split; [intros v []|exact Hc]|reflexivity].
  - destruct (m <? gl_num v) eqn:Em.
    + split; [discriminate|]. intros [H _]. specialize (H v (or_introl eq_refl)). lia.
    + destruct (existsb _ seen) eqn:Ex.
      * split; [discriminate|]. intros [_ H]. exfalso. apply existsb_exists in Ex. destruct Ex as ([i n] & Hin & Hb).
        cbn [fst snd] in Hb. apply andb_true_iff in Hb. destruct Hb as [Hi Hn]. apply beq_spec in Hi. subst i.
        assert (n = gl_num v); [|lia].
        apply (H (gl_ident v)); [apply in_or_app; left; exact Hin|].
        apply in_or_app. right. left. reflexivity.
      * assert (Hc' : consistent ((gl_ident v, gl_num v) :: seen)).
        { intros i n n' [E|H1] [E'|H2].
          - congruence.
          - inversion E; subst. rewrite <- Bool.not_true_iff_false, existsb_exists in Ex.
            destruct (Z.eq_dec (gl_num v) n') as [|Hne]; [assumption|]. exfalso. apply Ex. exists (gl_ident v, n').
            split; [exact H2|]. cbn [fst snd]. rewrite beq_refl. cbn [andb]. lia.
          - inversion E'; subst. rewrite <- Bool.not_true_iff_false, existsb_exists in Ex.
            destruct (Z.eq_dec n (gl_num v)) as [|Hne]; [assumption|]. exfalso. apply Ex. exists (gl_ident v, n).
            split; [exact H1|]. cbn [fst snd]. rewrite beq_refl. cbn [andb]. lia.
          - apply (Hc i); assumption. }
        rewrite (IH _ Hc'). unfold pairs. cbn [map]. fold (pairs l).
        assert (Hperm : forall x, In x (((gl_ident v, gl_num v) :: seen) ++ pairs l) <-> In x (seen ++ (gl_ident v, gl_num v) :: pairs l)).
        { intros x. cbn [app In]. rewrite !in_app_iff. cbn [In]. tauto. }
        split.
        -- intros [H1 H2]. split.
           ++ intros w [<-|Hw]; [lia|apply H1, Hw].
           ++ intros i n n' Ha Hb. apply (H2 i); apply Hperm; assumption.
        -- intros [H1 H2]. split.
           ++ intros w Hw. apply H1. right. exact Hw.
           ++ intros i n n' Ha Hb. apply (H2 i); apply Hperm; assumption.
Qed.

Definition clean (a : gattr) (vals : list gvalue) : Prop :=
  match max_of (ga_type a) with
  | Some m => (forall v, In v vals -> gl_attr v = ga_name a -> gl_num v <= m) /\
              consistent (pairs (filter (fun v => beq (gl_attr v) (ga_name a)) vals))
  | None => True
  end.
Lemma consistent_nil : consistent []. Proof. intros i n n' []. Qed.
Lemma check_values_spec a vals : check_values a vals = None <-> clean a vals.
Proof.
  unfold check_values, clean. destruct (max_of (ga_type a)) as [m|]; [|tauto].
  rewrite (check_vals_spec m _ [] consistent_nil). cbn [app]. split; intros [H1 H2]; (split; [|exact H2]).
  - intros v Hv Ha. apply H1. apply filter_In. split; [exact Hv|]. rewrite Ha. apply beq_refl.
  - intros v Hv. apply filter_In in Hv. destruct Hv as [Hv Hb]. apply beq_spec in Hb. apply H1; assumption.
Qed.
Lemma first_error_none {A} (f : A -> option N) l : first_error f l = None <-> forall x, In x l -> f x = None.
Proof.
  induction l as [|x l IH]; cbn [first_error]; [split; [intros _ y []|reflexivity]|].
  destruct (f x) eqn:E.
  - split; [discriminate|]. intros H. rewrite (H x (or_introl eq_refl)) in E. discriminate.
  - rewrite IH. split; [intros H y [<-|Hy]; [exact E|apply H, Hy]|intros H y Hy; apply H; right; exact Hy].
Qed.
Lemma first_error_total {A} (f : A -> option N) l : first_error f l = None \/ exists e, first_error f l = Some e.
Proof. destruct (first_error f l); eauto. Qed.

(* ---- vendors ---- *)
Definition vlive (ign : list bytes) (v : gvendor) : list gattr := live ign (gn_attrs v).
Definition build (ign : list bytes) (v : gvendor) : cvendor :=
  mkcvendor (gn_name v) (gn_ident v) (gn_num v) (sort attr_lt (vlive ign v)) (sort value_lt (gn_vals v)).
Definition vendor_ok (ign : list bytes) (v : gvendor) : Prop :=
  gn_llen v = 1 /\ gn_tlen v = 1 /\ (forall a, In a (vlive ign v) -> invalid_vendor_attr a = false) /\
  (forall a, In a (vlive ign v) -> clean a (gn_vals v)).
Definition vidents (ign : list bytes) (l : list gvendor) : list bytes := flat_map (fun v => idents (vlive ign v)) l.
Definition vnames (l : list gvendor) : list bytes := map gn_ident l.
Definition vendors_ok (ign seen vseen : list bytes) (l : list gvendor) : Prop :=
  (forall v, In v l -> vendor_ok ign v) /\ NoDup (vidents ign l) /\ (forall i, In i (vidents ign l) -> ~ In i seen) /\
  NoDup (vnames l) /\ (forall i, In i (vnames l) -> ~ In i vseen).

Lemma nodup_app_iff {A} (l1 l2 : list A) :
  NoDup (l1 ++ l2) <-> NoDup l1 /\ NoDup l2 /\ (forall x, In x l1 -> ~ In x l2).
Proof.
  induction l1 as [|x l1 IH]; cbn [app].
  - split; [intros H; repeat split; [constructor|exact H|intros x []]|tauto].
  - split.
    + intros H. inversion H as [|? ? Hn Hd]; subst. apply IH in Hd. destruct Hd as (H1 & H2 & H3).
      repeat split; try assumption.
      * constructor; [|exact H1]. intros Hin. apply Hn. apply in_or_app. left. exact Hin.
      * intros y [<-|Hy]; [intros Hin; apply Hn; apply in_or_app; right; exact Hin|apply H3, Hy].
    + intros (H1 & H2 & H3). inversion H1 as [|? ? Hn Hd]; subst. constructor.
      * intros Hin. apply in_app_or in Hin. destruct Hin as [Hin|Hin]; [contradiction|]. apply (H3 x (or_introl eq_refl) Hin).
      * apply IH. repeat split; try assumption. intros y Hy. apply H3. right. exact Hy.
Qed.

Lemma clean_same a v v' : (forall x, In x v <-> In x v') -> clean a v -> clean a v'.
Proof.
  intros H. unfold clean. destruct (max_of (ga_type a)); [|tauto]. intros [H1 H2]. split.
  - intros x Hx. apply H1, H, Hx.
  - intros i n n' Ha Hb. apply (H2 i); unfold pairs in *; rewrite in_map_iff in *.
    + destruct Ha as (w & Hw & Hin). exists w. split; [exact Hw|]. apply filter_In in Hin. apply filter_In. split; [apply H, Hin|apply Hin].
    + destruct Hb as (w & Hw & Hin). exists w. split; [exact Hw|]. apply filter_In in Hin. apply filter_In. split; [apply H, Hin|apply Hin].
Qed.
Lemma sort_In {A} (lt : A -> A -> bool) l x : In x (sort lt l) <-> In x l.
Proof. split; intros H; [eapply Permutation_in; [apply Permutation_sym, sort_perm|exact H]|eapply Permutation_in; [apply sort_perm|exact H]]. Qed.

Lemma sort_In' {A} (lt : A -> A -> bool) l x : In x l <-> In x (sort lt l).
Proof. split; apply sort_In. Qed.

Lemma check_vendors_spec ign : forall l seen vseen,
  match check_vendors ign seen vseen l with
  | Ok cs => vendors_ok ign seen vseen l /\ cs = map (build ign) l
  | Err _ => ~ vendors_ok ign seen vseen l
  | _ => False
  end.
Proof.
  induction l as [|v l IH]; intros seen vseen; cbn [check_vendors].
  - split; [|reflexivity]. unfold vendors_ok, vidents, vnames. cbn. repeat split; try constructor; intros; contradiction.
  - destruct (negb (gn_llen v =? 1) || negb (gn_tlen v =? 1)) eqn:Ef.
    { intros (H & _). destruct (H v (or_introl eq_refl)) as (H1 & H2 & _). lia. }
    destruct (mem (gn_ident v) vseen) eqn:Em.
    { intros (_ & _ & _ & _ & W). apply mem_In in Em. apply (W (gn_ident v)); [left; reflexivity|exact Em]. }
    apply mem_false in Em.
    pose proof (check_attrs_spec invalid_vendor_attr E_vattr ign (gn_attrs v) seen) as Ha.
    destruct (check_attrs invalid_vendor_attr E_vattr ign seen (gn_attrs v)) as [[kept seen']|x| |]; try contradiction.
    + destruct Ha as ((A1 & A2 & A3) & Hr). inversion Hr; subst kept seen'. fold (vlive ign v) in *.
      destruct (first_error_total (fun a => check_values a (sort value_lt (gn_vals v))) (sort attr_lt (vlive ign v))) as [Hn|[e He]].
      * rewrite Hn. rewrite first_error_none in Hn.
        assert (Hclean : forall a, In a (vlive ign v) -> clean a (gn_vals v)).
        { intros a Hin. apply (clean_same a (sort value_lt (gn_vals v))); [intros x; apply sort_In|].
          apply check_values_spec, Hn. exact (proj2 (sort_In _ _ _) Hin). }
        specialize (IH (rev (idents (vlive ign v)) ++ seen) (gn_ident v :: vseen)).
        destruct (check_vendors ign (rev (idents (vlive ign v)) ++ seen) (gn_ident v :: vseen) l) as [cs|x| |]; try contradiction.
        -- destruct IH as ((V1 & V2 & V3 & W1 & W2) & Hcs). subst cs. split; [|reflexivity].
           unfold vendors_ok, vidents, vnames. cbn [flat_map map]. fold (vidents ign l). fold (vnames l). split; [|split; [|split; [|split]]].
           ++ intros w [<-|Hw]; [|apply V1, Hw]. unfold vendor_ok. repeat split; try lia; assumption.
           ++ apply nodup_app_iff. repeat split; try assumption. intros i Hi Hin. apply (V3 i Hin).
              apply in_or_app. left. apply -> in_rev. exact Hi.
           ++ intros i Hi. apply in_app_or in Hi. destruct Hi as [Hi|Hi]; [apply A3, Hi|].
              intros Hs. apply (V3 i Hi). apply in_or_app. right. exact Hs.
           ++ constructor; [|exact W1]. intros Hin. apply (W2 _ Hin). left. reflexivity.
           ++ intros i [<-|Hi]; [exact Em|]. intros Hs. apply (W2 i Hi). right. exact Hs.
        -- intros (V1 & V2 & V3 & W1 & W2). apply IH. unfold vendors_ok. unfold vidents in V2, V3. cbn [flat_map] in V2, V3. fold (vidents ign l) in V2, V3.
           unfold vnames in W1, W2. cbn [map] in W1, W2. fold (vnames l) in W1, W2.
           apply nodup_app_iff in V2. destruct V2 as (N1 & N2 & N3). split; [|split; [|split; [|split]]].
           ++ intros w Hw. apply V1. right. exact Hw.
           ++ exact N2.
           ++ intros i Hi Hin. apply in_app_or in Hin. destruct Hin as [Hin|Hin].
              ** apply in_rev in Hin. apply (N3 i Hin Hi).
              ** apply (V3 i); [apply in_or_app; right; exact Hi|exact Hin].
           ++ inversion W1; assumption.
           ++ intros i Hi [<-|Hs]; [inversion W1 as [|? ? Hn' _]; apply Hn'; exact Hi|apply (W2 i); [right; exact Hi|exact Hs]].
      * rewrite He. intros (V1 & _). destruct (V1 v (or_introl eq_refl)) as (_ & _ & _ & Hc).
        assert (Hn : first_error (fun a => check_values a (sort value_lt (gn_vals v))) (sort attr_lt (vlive ign v)) = None).
        { apply first_error_none. intros a Hin. apply check_values_spec.
          apply (clean_same a (gn_vals v)); [intros x; apply sort_In'|]. apply Hc. exact (proj1 (sort_In _ _ _) Hin). }
        congruence.
    + intros (V1 & V2 & V3 & _). apply Ha. destruct (V1 v (or_introl eq_refl)) as (_ & _ & Hv & _).
      unfold vidents in V2, V3. cbn [flat_map] in V2, V3. apply nodup_app_iff in V2. destruct V2 as (N1 & _ & _).
      split; [exact Hv|]. split; [exact N1|]. intros i Hi. apply V3. apply in_or_app. left. exact Hi.
Qed.

(* ---- Generate against its specification ---- *)
Section Spec.
Variables (o : gopts) (d : gdict).
Let ign := go_ignore o.
Let A := live ign (gd_attrs d).
Let attrs := sort attr_lt A.
Let ext := sort (fun a b => bytes_lt (fst a) (fst b)) (go_ext o).
Let locals := local_vals ign (map ga_name attrs) (gd_vals d).
Let exts := ext_vals ign (map ga_name attrs) (map fst ext) (gd_vals d).

(* VALUEs attached to an external attribute: uint64 numbers, one number per identifier *)
Definition ext_clean (e : bytes * bytes) : Prop :=
  (forall v, In v exts -> gl_attr v = fst e -> gl_num v <= 18446744073709551615) /\
  consistent (pairs (filter (fun v => beq (gl_attr v) (fst e)) exts)).

(* which dictionaries are accepted *)
Definition accepts : Prop :=
  attrs_ok invalid_top ign [] (gd_attrs d) /\
  vals_ok ign (map ga_name attrs) (map fst ext) (gd_vals d) /\
  (forall a, In a A -> clean a locals) /\
  (forall e, In e (go_ext o) -> ext_clean e) /\
  vendors_ok ign (idents A) [] (gd_vendors d).

(* what is emitted for them *)
Definition output : list gdecl :=
  emit attrs ext (sort value_lt locals) exts
       (sort cvendor_lt (map (build ign) (gd_vendors d))).

Lemma vendors_ok_same seen seen' vs l : (forall i, In i seen <-> In i seen') -> vendors_ok ign seen vs l -> vendors_ok ign seen' vs l.
Proof. intros H (V1 & V2 & V3 & W). split; [exact V1|]. split; [exact V2|]. split; [|exact W]. intros i Hi Hs. apply (V3 i Hi). apply H, Hs. Qed.

Theorem gen_refines :
  match gen o d with
  | Ok ds => accepts /\ ds = output
  | Err _ => ~ accepts
  | _ => False
  end.
Proof.
  unfold gen. fold ign.
  pose proof (check_attrs_spec invalid_top E_attr ign (gd_attrs d) []) as Ha.
  destruct (check_attrs invalid_top E_attr ign [] (gd_attrs d)) as [[kept seen]|x| |]; try contradiction;
    [|intros (H & _); exact (Ha H)].
  destruct Ha as [Haok Hr]. inversion Hr; subst kept seen. fold A. fold attrs. fold ext.
  pose proof (split_values_spec ign (map ga_name attrs) (map fst ext) (gd_vals d)) as Hv.
  destruct (split_values ign (map ga_name attrs) (map fst ext) (gd_vals d)) as [[lo ex]|x| |]; try contradiction;
    [|intros (_ & H & _); exact (Hv H)].
  destruct Hv as [Hvok Hr2]. inversion Hr2; subst lo ex. fold locals. fold exts.
  destruct (first_error_total (fun a => check_values a (sort value_lt locals)) attrs) as [Hn|[e He]].
  2:{ rewrite He. intros (_ & _ & Hc & _).
      assert (first_error (fun a => check_values a (sort value_lt locals)) attrs = None); [|congruence].
      apply first_error_none. intros a Hin. apply check_values_spec.
      apply (clean_same a locals); [intros x; apply sort_In'|]. apply Hc. exact (proj1 (sort_In _ _ _) Hin). }
  rewrite Hn. rewrite first_error_none in Hn.
  assert (Hclean : forall a, In a A -> clean a locals).
  { intros a Hin. apply (clean_same a (sort value_lt locals)); [intros x; apply sort_In|].
    apply check_values_spec, Hn. exact (proj2 (sort_In _ _ _) Hin). }
  assert (Hext_iff : forall e, check_vals 18446744073709551615 [] (ext_values exts e) = None <-> ext_clean e).
  { intros e. rewrite (check_vals_spec _ _ [] consistent_nil). cbn [app]. unfold ext_values, ext_clean. split.
    - intros [Hb H]. split.
      + intros v Hv Ha. apply Hb. apply sort_In. apply filter_In. split; [exact Hv|]. rewrite Ha. apply beq_refl.
      + intros i n n' Hi Hj. apply (H i); unfold pairs in *; rewrite in_map_iff in *.
        * destruct Hi as (w & Hw & Hin). exists w. split; [exact Hw|apply sort_In, Hin].
        * destruct Hj as (w & Hw & Hin). exists w. split; [exact Hw|apply sort_In, Hin].
    - intros [Hb H]. split.
      + intros v Hv. apply (proj1 (sort_In _ _ _)) in Hv. apply filter_In in Hv. destruct Hv as [Hv Hq].
        apply beq_spec in Hq. apply Hb; assumption.
      + intros i n n' Hi Hj. apply (H i); unfold pairs in *; rewrite in_map_iff in *.
        * destruct Hi as (w & Hw & Hin). exists w. split; [exact Hw|]. exact (proj1 (sort_In _ _ _) Hin).
        * destruct Hj as (w & Hw & Hin). exists w. split; [exact Hw|]. exact (proj1 (sort_In _ _ _) Hin). }
  destruct (first_error_total (fun e => check_vals 18446744073709551615 [] (ext_values exts e)) ext) as [Hx|[e He]].
  2:{ rewrite He. intros (_ & _ & _ & Hc & _).
      assert (first_error (fun e => check_vals 18446744073709551615 [] (ext_values exts e)) ext = None); [|congruence].
      apply first_error_none. intros x Hin. apply Hext_iff. apply Hc. exact (proj1 (sort_In _ _ _) Hin). }
  rewrite Hx. rewrite first_error_none in Hx.
  pose proof (check_vendors_spec ign (gd_vendors d) (rev (idents A) ++ []) []) as Hvs.
  destruct (check_vendors ign (rev (idents A) ++ []) [] (gd_vendors d)) as [cvs|x| |]; try contradiction.
  - destruct Hvs as [Hnok ->]. split; [|reflexivity]. unfold accepts.
    split; [exact Haok|]. split; [exact Hvok|]. split; [exact Hclean|].
    split; [intros e He; apply Hext_iff, Hx; exact (proj2 (sort_In _ _ _) He)|].
    apply (vendors_ok_same (rev (idents A) ++ [])); [|exact Hnok].
    intros i. rewrite app_nil_r. split; intros H; [apply in_rev; exact H|apply -> in_rev; exact H].
  - intros (_ & _ & _ & _ & Hnok). apply Hvs. apply (vendors_ok_same (idents A)); [|exact Hnok].
    intros i. rewrite app_nil_r. apply in_rev.
Qed.

Corollary gen_total : gen o d <> Panic /\ gen o d <> OutOfFuel.
Proof. pose proof gen_refines as H. destruct (gen o d); try contradiction; split; discriminate. Qed.
End Spec.

(* ---- the order of declaration does not matter ---- *)
Lemma perm_filter {A} (f : A -> bool) l l' : Permutation l l' -> Permutation (filter f l) (filter f l').
Proof.
  induction 1 as [|x l l' _ IH|x y l|l l' l'' _ IH1 _ IH2]; cbn [filter].
  - constructor.
  - destruct (f x); [apply perm_skip|]; exact IH.
  - destruct (f x), (f y); try reflexivity. apply perm_swap.
  - etransitivity; eassumption.
Qed.
Lemma perm_flat_map {A B} (f : A -> list B) l l' : Permutation l l' -> Permutation (flat_map f l) (flat_map f l').
Proof.
  induction 1 as [|x l l' _ IH|x y l|l l' l'' _ IH1 _ IH2]; cbn [flat_map].
  - constructor.
  - apply Permutation_app_head, IH.
  - rewrite !app_assoc. apply Permutation_app_tail, Permutation_app_comm.
  - etransitivity; eassumption.
Qed.
Lemma perm_In_iff {A} (l l' : list A) : Permutation l l' -> forall x, In x l <-> In x l'.
Proof. intros H x. split; intros Hx; [eapply Permutation_in; [exact H|exact Hx]|eapply Permutation_in; [apply Permutation_sym, H|exact Hx]]. Qed.

Lemma attrs_ok_perm inv ign seen l l' : Permutation l l' -> attrs_ok inv ign seen l -> attrs_ok inv ign seen l'.
Proof.
  intros Hp (H1 & H2 & H3). pose proof (perm_filter (fun a => negb (mem (ga_name a) ign)) l l' Hp) as Hl. fold (live ign l) (live ign l') in Hl.
  split; [|split].
  - intros a Ha. apply H1. eapply Permutation_in; [apply Permutation_sym, Hl|exact Ha].
  - eapply Permutation_NoDup; [|exact H2]. apply Permutation_map, Hl.
  - intros i Hi. apply H3. eapply Permutation_in; [apply Permutation_sym, Permutation_map, Hl|exact Hi].
Qed.

(* distinct declarations differ in a sort key *)
Definition attr_keys (l : list gattr) : Prop :=
  forall a b, In a l -> In b l -> hd 0 (ga_oid a) = hd 0 (ga_oid b) -> ga_name a = ga_name b -> a = b.
Definition value_keys (l : list gvalue) : Prop :=
  forall a b, In a l -> In b l -> gl_num a = gl_num b -> gl_attr a = gl_attr b -> gl_name a = gl_name b -> a = b.

Lemma invalid_single a : common_invalid a = false -> single a.
Proof.
  unfold common_invalid, single. intros H. destruct (Nat.eqb_spec (length (ga_oid a)) 1) as [E|E]; [exact E|].
  cbn [negb orb] in H. discriminate.
Qed.
Lemma invalid_top_single a : invalid_top a = false -> single a.
Proof. unfold invalid_top. intros H. apply invalid_single. destruct (common_invalid a); [discriminate|reflexivity]. Qed.
Lemma invalid_vendor_single a : invalid_vendor_attr a = false -> single a.
Proof. unfold invalid_vendor_attr. intros H. apply invalid_single. destruct (common_invalid a); [discriminate|reflexivity]. Qed.

Lemma sort_attrs_perm l l' : Permutation l l' -> (forall a, In a l -> single a) -> attr_keys l ->
  sort attr_lt l = sort attr_lt l'.
Proof.
  intros Hp Hs Hk.
  rewrite (sort_ext attr_lt attr_lt1 l) by (intros; apply attr_lt_single; apply Hs; assumption).
  rewrite (sort_ext attr_lt attr_lt1 l').
  2:{ intros x y Hx Hy. apply attr_lt_single; apply Hs; eapply Permutation_in; try (apply Permutation_sym, Hp); assumption. }
  apply sort_of_permutation; try exact Hp.
  - intros x y. apply lex2_asym.
  - intros x y z. unfold attr_lt1. intros H1 H2. eapply lex2_trans; eassumption.
  - intros x y Hx Hy H1 H2. destruct (lex2_trich _ _ _ _ H1 H2) as [E1 E2]. apply Hk; assumption.
Qed.
Lemma sort_values_perm l l' : Permutation l l' -> value_keys l -> sort value_lt l = sort value_lt l'.
Proof.
  intros Hp Hk. apply sort_of_permutation; try exact Hp.
  - apply value_lt_asym.
  - intros x y z H1 H2. eapply value_lt_trans; eassumption.
  - intros x y Hx Hy H1 H2. destruct (value_lt_trich _ _ H1 H2) as (E1 & E2 & E3). apply Hk; assumption.
Qed.

Lemma value_keys_sub l l' : (forall x, In x l' -> In x l) -> value_keys l -> value_keys l'.
Proof. intros H Hk a b Ha Hb. apply Hk; apply H; assumption. Qed.
Lemma attr_keys_sub l l' : (forall x, In x l' -> In x l) -> attr_keys l -> attr_keys l'.
Proof. intros H Hk a b Ha Hb. apply Hk; apply H; assumption. Qed.

(* two declarations of one vendor that differ only in the order of their attributes and values *)
Definition vendor_same (v v' : gvendor) : Prop :=
  gn_name v = gn_name v' /\ gn_ident v = gn_ident v' /\ gn_num v = gn_num v' /\ gn_tlen v = gn_tlen v' /\
  gn_llen v = gn_llen v' /\ Permutation (gn_attrs v) (gn_attrs v') /\ Permutation (gn_vals v) (gn_vals v').
Definition vendor_keys (ign : list bytes) (v : gvendor) : Prop := attr_keys (vlive ign v) /\ value_keys (gn_vals v).

Lemma vlive_perm ign v v' : vendor_same v v' -> Permutation (vlive ign v) (vlive ign v').
Proof. intros (_ & _ & _ & _ & _ & Ha & _). apply perm_filter, Ha. Qed.

Lemma vendor_ok_same ign v v' : vendor_same v v' -> vendor_ok ign v -> vendor_ok ign v'.
Proof.
  intros Hs (H1 & H2 & H3 & H4). pose proof (vlive_perm ign v v' Hs) as Hl.
  destruct Hs as (_ & _ & _ & Ht & Hll & _ & Hv). unfold vendor_ok. rewrite <- Ht, <- Hll.
  split; [exact H1|]. split; [exact H2|]. split.
  - intros a Ha. apply H3. eapply Permutation_in; [apply Permutation_sym, Hl|exact Ha].
  - intros a Ha. apply (clean_same a (gn_vals v)); [apply perm_In_iff, Hv|].
    apply H4. eapply Permutation_in; [apply Permutation_sym, Hl|exact Ha].
Qed.

Lemma build_same ign v v' : vendor_same v v' -> vendor_ok ign v -> vendor_keys ign v -> build ign v = build ign v'.
Proof.
  intros Hs (_ & _ & H3 & _) [Ka Kv]. pose proof (vlive_perm ign v v' Hs) as Hl.
  destruct Hs as (E1 & E2 & E3 & _ & _ & _ & Hv). unfold build. rewrite <- E1, <- E2, <- E3. f_equal.
  - apply sort_attrs_perm; [exact Hl| |exact Ka]. intros a Ha. apply invalid_vendor_single, H3, Ha.
  - apply sort_values_perm; [exact Hv|exact Kv].
Qed.

Lemma cvendor_lt_asym a b : cvendor_lt a b = true -> cvendor_lt b a = false.
Proof. apply lex2_asym. Qed.
Lemma cvendor_lt_trans a b c : cvendor_lt a b = true -> cvendor_lt b c = true -> cvendor_lt a c = true.
Proof. apply lex2_trans. Qed.

Definition dict_perm (d d' : gdict) : Prop :=
  Permutation (gd_attrs d) (gd_attrs d') /\ Permutation (gd_vals d) (gd_vals d') /\
  exists l1, Forall2 vendor_same (gd_vendors d) l1 /\ Permutation l1 (gd_vendors d').

(* no two declarations share every sort key (number and name) *)
Definition distinct_keys (o : gopts) (d : gdict) : Prop :=
  attr_keys (live (go_ignore o) (gd_attrs d)) /\ value_keys (gd_vals d) /\
  (forall v, In v (gd_vendors d) -> vendor_keys (go_ignore o) v) /\
  (forall v w, In v (gd_vendors d) -> In w (gd_vendors d) -> gn_num v = gn_num w -> gn_name v = gn_name w -> v = w).

Lemma vidents_same ign l l1 : Forall2 vendor_same l l1 -> Permutation (vidents ign l) (vidents ign l1).
Proof.
  induction 1 as [|v v1 l l1 Hs _ IH]; [constructor|]. unfold vidents. cbn [flat_map].
  apply Permutation_app; [apply Permutation_map, vlive_perm, Hs|exact IH].
Qed.

Lemma vnames_same l l1 : Forall2 vendor_same l l1 -> vnames l = vnames l1.
Proof.
  induction 1 as [|v v1 l l1 Hs _ IH]; [reflexivity|]. unfold vnames in *. cbn [map].
  destruct Hs as (_ & E & _). rewrite E, IH. reflexivity.
Qed.

Lemma vendors_ok_perm ign seen vs l l1 l' : Forall2 vendor_same l l1 -> Permutation l1 l' ->
  vendors_ok ign seen vs l -> vendors_ok ign seen vs l'.
Proof.
  intros Hf Hp (V1 & V2 & V3 & W1 & W2).
  assert (Hid : Permutation (vidents ign l) (vidents ign l')).
  { etransitivity; [apply vidents_same, Hf|]. unfold vidents. apply perm_flat_map, Hp. }
  assert (Hvn : Permutation (vnames l) (vnames l')).
  { rewrite (vnames_same l l1 Hf). unfold vnames. apply Permutation_map, Hp. }
  split; [|split; [|split; [|split]]].
  - intros v' Hv'. apply (Permutation_in _ (Permutation_sym Hp)) in Hv'.
    clear -Hf Hv' V1. induction Hf as [|v v1 l l1 Hs _ IH]; [destruct Hv'|].
    destruct Hv' as [<-|Hin]; [apply (vendor_ok_same ign v v1 Hs), V1; left; reflexivity|].
    apply IH; [|exact Hin]. intros w Hw. apply V1. right. exact Hw.
  - eapply Permutation_NoDup; [exact Hid|exact V2].
  - intros i Hi. apply V3. eapply Permutation_in; [apply Permutation_sym, Hid|exact Hi].
  - eapply Permutation_NoDup; [exact Hvn|exact W1].
  - intros i Hi. apply W2. eapply Permutation_in; [apply Permutation_sym, Hvn|exact Hi].
Qed.

Lemma build_map_same ign l l1 : Forall2 vendor_same l l1 ->
  (forall v, In v l -> vendor_ok ign v) -> (forall v, In v l -> vendor_keys ign v) ->
  map (build ign) l = map (build ign) l1.
Proof.
  induction 1 as [|v v1 l l1 Hs _ IH]; intros Hok Hk; [reflexivity|]. cbn [map]. f_equal.
  - apply build_same; [exact Hs|apply Hok; left; reflexivity|apply Hk; left; reflexivity].
  - apply IH; intros w Hw; [apply Hok|apply Hk]; right; exact Hw.
Qed.

Lemma consistent_same (l l' : list (bytes * Z)) : (forall x, In x l' -> In x l) -> consistent l -> consistent l'.
Proof. intros H Hc i n n' Ha Hb. apply (Hc i); apply H; assumption. Qed.

Lemma emit_ext attrs ext values exts exts' vendors :
  (forall e, ext_values exts e = ext_values exts' e) ->
  emit attrs ext values exts vendors = emit attrs ext values exts' vendors.
Proof. intros H. unfold emit. do 2 f_equal. f_equal. apply map_ext. intros e. rewrite H. reflexivity. Qed.

Theorem order_independent o d d' : accepts o d -> distinct_keys o d -> dict_perm d d' ->
  accepts o d' /\ output o d' = output o d.
Proof.
  intros (Ha & Hv & Hc & He & Hn) (Ka & Kv & Kn & Kw) (Pa & Pv & l1 & Fs & Pn).
  set (ign := go_ignore o) in *.
  assert (PA : Permutation (live ign (gd_attrs d)) (live ign (gd_attrs d'))) by (apply perm_filter, Pa).
  assert (Hsingle : forall a, In a (live ign (gd_attrs d)) -> single a).
  { intros a Hin. apply invalid_top_single. destruct Ha as (H1 & _). apply H1, Hin. }
  assert (Eattrs : sort attr_lt (live ign (gd_attrs d)) = sort attr_lt (live ign (gd_attrs d'))).
  { apply sort_attrs_perm; assumption. }
  set (names := map ga_name (sort attr_lt (live ign (gd_attrs d)))) in *.
  set (ext := sort (fun a b => bytes_lt (fst a) (fst b)) (go_ext o)) in *.
  assert (PL : Permutation (local_vals ign names (gd_vals d)) (local_vals ign names (gd_vals d'))) by (apply perm_filter, Pv).
  assert (PE : Permutation (ext_vals ign names (map fst ext) (gd_vals d)) (ext_vals ign names (map fst ext) (gd_vals d')))
    by (apply perm_filter, Pv).
  assert (EV : forall e, ext_values (ext_vals ign names (map fst ext) (gd_vals d)) e =
                         ext_values (ext_vals ign names (map fst ext) (gd_vals d')) e).
  { intros e. unfold ext_values. apply sort_values_perm; [apply perm_filter, PE|].
    eapply value_keys_sub; [|exact Kv]. intros x Hx. apply filter_In in Hx. destruct Hx as [Hx _].
    unfold ext_vals in Hx. apply filter_In in Hx. apply Hx. }
  split.
  - unfold accepts. fold ign. rewrite <- Eattrs. fold names. fold ext.
    split; [eapply attrs_ok_perm; eassumption|]. split; [|split; [|split]].
    + intros v Hin. apply Hv. eapply Permutation_in; [apply Permutation_sym, Pv|exact Hin].
    + intros a Hin. apply (clean_same a (local_vals ign names (gd_vals d))); [apply perm_In_iff, PL|].
      apply Hc. eapply Permutation_in; [apply Permutation_sym, PA|exact Hin].
    + intros e Hin. destruct (He e Hin) as [E1 E2]. unfold ext_clean. fold ign. rewrite <- Eattrs. fold names. fold ext. split.
      * intros v Hvin. apply E1. eapply Permutation_in; [apply Permutation_sym, PE|exact Hvin].
      * eapply consistent_same; [|exact E2]. unfold pairs. intros x Hx. rewrite in_map_iff in *.
        destruct Hx as (w & Hw & Hin'). exists w. split; [exact Hw|]. apply filter_In in Hin'. apply filter_In.
        split; [eapply Permutation_in; [apply Permutation_sym, PE|apply Hin']|apply Hin'].
    + apply (vendors_ok_same o (idents (live ign (gd_attrs d)))).
      * intros i. apply perm_In_iff. apply Permutation_map, PA.
      * eapply vendors_ok_perm; eassumption.
  - unfold output. fold ign. rewrite <- Eattrs. fold names. fold ext.
    rewrite <- (emit_ext _ _ _ _ _ _ EV). f_equal.
    + symmetry. apply sort_values_perm; [exact PL|]. eapply value_keys_sub; [|exact Kv].
      intros x Hx. unfold local_vals in Hx. apply filter_In in Hx. apply Hx.
    + destruct Hn as (V1 & _ & _). symmetry.
      apply sort_of_permutation.
      * apply cvendor_lt_asym.
      * intros x y z H1 H2. eapply cvendor_lt_trans; eassumption.
      * rewrite (build_map_same ign _ _ Fs V1 Kn). apply Permutation_map, Pn.
      * intros c c' Hin Hin' H1 H2. apply in_map_iff in Hin, Hin'.
        destruct Hin as (v & <- & Hv1). destruct Hin' as (w & <- & Hw1).
        destruct (lex2_trich _ _ _ _ H1 H2) as [E1 E2]. cbn [build cv_num cv_name] in E1, E2.
        rewrite (Kw v w Hv1 Hw1 E1 E2). reflexivity.
Qed.

(* ---- nothing at all for attributes on the ignore list ---- *)
Definition strip_vendor (ign : list bytes) (v : gvendor) : gvendor :=
  mkgvendor (gn_name v) (gn_ident v) (gn_num v) (gn_tlen v) (gn_llen v) (live ign (gn_attrs v)) (gn_vals v).
Definition strip (ign : list bytes) (d : gdict) : gdict :=
  mkgdict (live ign (gd_attrs d)) (filter (fun v => negb (mem (gl_attr v) ign)) (gd_vals d))
          (map (strip_vendor ign) (gd_vendors d)).

Lemma filter_all {A} (f : A -> bool) l : (forall x, f x = true) -> filter f l = l.
Proof. intros H. induction l as [|a l IH]; [reflexivity|]. cbn [filter]. rewrite H, IH. reflexivity. Qed.
Lemma live_nil l : live [] l = l.
Proof. unfold live. apply filter_all. reflexivity. Qed.
Lemma filter_filter {A} (f g : A -> bool) l : filter f (filter g l) = filter (fun x => g x && f x) l.
Proof.
  induction l as [|x l IH]; [reflexivity|]. cbn [filter]. destruct (g x); cbn [andb filter]; [destruct (f x)|]; rewrite IH; reflexivity.
Qed.
Lemma local_vals_strip ign local l : local_vals [] local (filter (fun v => negb (mem (gl_attr v) ign)) l) = local_vals ign local l.
Proof. unfold local_vals. rewrite filter_filter. apply filter_ext. intros v. cbn [mem existsb negb andb]. reflexivity. Qed.
Lemma ext_vals_strip ign local ext l : ext_vals [] local ext (filter (fun v => negb (mem (gl_attr v) ign)) l) = ext_vals ign local ext l.
Proof.
  unfold ext_vals. rewrite filter_filter. apply filter_ext. intros v. cbn [mem existsb negb andb].
  destruct (negb (mem (gl_attr v) ign)); reflexivity.
Qed.
Lemma vlive_strip ign v : vlive [] (strip_vendor ign v) = vlive ign v.
Proof. unfold vlive, strip_vendor. cbn [gn_attrs]. apply live_nil. Qed.
Lemma build_strip ign v : build [] (strip_vendor ign v) = build ign v.
Proof. unfold build. rewrite vlive_strip. reflexivity. Qed.
Lemma vidents_strip ign l : vidents [] (map (strip_vendor ign) l) = vidents ign l.
Proof. unfold vidents. induction l as [|v l IH]; [reflexivity|]. cbn [map flat_map]. rewrite vlive_strip, IH. reflexivity. Qed.
Lemma vendor_ok_strip ign v : vendor_ok [] (strip_vendor ign v) <-> vendor_ok ign v.
Proof. unfold vendor_ok. rewrite vlive_strip. reflexivity. Qed.
Lemma vnames_strip ign l : vnames (map (strip_vendor ign) l) = vnames l.
Proof. unfold vnames. rewrite map_map. reflexivity. Qed.
Lemma vendors_ok_strip ign seen vs l : vendors_ok [] seen vs (map (strip_vendor ign) l) <-> vendors_ok ign seen vs l.
Proof.
  unfold vendors_ok. rewrite vidents_strip, vnames_strip. split; intros (V1 & V2 & V3); (split; [|split; assumption]).
  - intros v Hv. apply vendor_ok_strip, V1. apply in_map, Hv.
  - intros v Hv. apply in_map_iff in Hv. destruct Hv as (w & <- & Hw). apply vendor_ok_strip, V1, Hw.
Qed.

Theorem ignored_leave_no_trace o d :
  (accepts o d <-> accepts (mkgopts [] (go_ext o)) (strip (go_ignore o) d)) /\
  output o d = output (mkgopts [] (go_ext o)) (strip (go_ignore o) d).
Proof.
  unfold accepts, output, ext_clean, attrs_ok, strip. cbn [go_ignore go_ext gd_attrs gd_vals gd_vendors].
  rewrite !live_nil, !local_vals_strip, !ext_vals_strip.
  rewrite map_map. rewrite (map_ext (fun x => build [] (strip_vendor (go_ignore o) x)) (build (go_ignore o))) by (intros; apply build_strip).
  split; [|reflexivity].
  set (ign := go_ignore o). set (A := live ign (gd_attrs d)). set (names := map ga_name (sort attr_lt A)).
  set (exn := map fst (sort (fun a b => bytes_lt (fst a) (fst b)) (go_ext o))).
  assert (Hvo : vals_ok ign names exn (gd_vals d) <-> vals_ok [] names exn (filter (fun v => negb (mem (gl_attr v) ign)) (gd_vals d))).
  { unfold vals_ok. split.
    - intros H v Hv. apply filter_In in Hv. destruct Hv as [Hv Hn]. destruct (H v Hv) as [Hi|Hr]; [|right; exact Hr].
      rewrite Hi in Hn. discriminate.
    - intros H v Hv. destruct (mem (gl_attr v) ign) eqn:Ei; [left; reflexivity|].
      destruct (H v) as [Hi|Hr]; [apply filter_In; split; [exact Hv|rewrite Ei; reflexivity]|discriminate|right; exact Hr]. }
  rewrite (vendors_ok_strip ign). tauto.
Qed.

(* ---- the documented API shape ---- *)
Definition is_getter (f : fname) : bool :=
  match f with FGet | FGetString | FGets | FGetStrings | FLookup | FLookupString => true | _ => false end.
Definition is_del (f : fname) : bool := match f with FDel => true | _ => false end.
Definition fnames (ds : list gdecl) : list fname :=
  flat_map (fun d => match d with DFunc _ f _ _ _ => [f] | _ => [] end) ds.
Definition valid (a : gattr) : Prop := invalid_top a = false \/ invalid_vendor_attr a = false.

Lemma valid_common a : valid a -> common_invalid a = false /\ supported (ga_type a) || (ga_type a =? T_vsa) = true /\
  (is_concat a = true -> is_str (ga_type a) = true /\ ga_enc a = None /\ ga_tag a = None).
Proof.
  unfold valid, invalid_top, invalid_vendor_attr. intros [H|H].
  - destruct (common_invalid a); [discriminate|]. cbn [orb] in H. split; [reflexivity|].
    destruct (is_concat a) eqn:Ec; cbn [andb orb] in H.
    + destruct (is_str (ga_type a)); cbn [negb orb] in H; [|discriminate].
      destruct (ga_enc a); [discriminate|]. destruct (ga_tag a); [discriminate|]. cbn [some orb] in H.
      split; [destruct (supported (ga_type a) || (ga_type a =? T_vsa)); [reflexivity|destruct (some (ga_size a)); discriminate]|].
      intros _. auto.
    + split; [destruct (supported (ga_type a) || (ga_type a =? T_vsa)); [reflexivity|discriminate]|discriminate].
  - destruct (common_invalid a); [discriminate|]. cbn [orb] in H. split; [reflexivity|].
    destruct (match ga_oid a with [n] => (n <? 0) || (255 <? n) | _ => true end); [discriminate|]. cbn [orb] in H.
    destruct (is_concat a); [discriminate|]. cbn [orb] in H.
    split; [destruct (supported (ga_type a)); [reflexivity|discriminate]|discriminate].
Qed.

(* one function family per attribute kind *)
Theorem funcs_names a vals : valid a ->
  fnames (funcs a vals) =
  if is_str (ga_type a) then
    if is_concat a then [FGet; FGetString; FLookup; FLookupString; FSet; FSetString; FDel]
    else [FAdd; FAddString; FGet; FGetString; FGets; FGetStrings; FLookup; FLookupString; FSet; FSetString; FDel]
  else if ga_type a =? T_vsa then []
  else [FAdd; FGet; FGets; FLookup; FSet; FDel].
Proof.
  intros Hv. destruct (valid_common a Hv) as (_ & Hs & _). unfold funcs.
  destruct (is_str (ga_type a)) eqn:E1; [destruct (is_concat a); reflexivity|].
  destruct ((ga_type a =? T_ipaddr) || (ga_type a =? T_ipv6addr)) eqn:E2.
  { destruct (ga_type a =? T_vsa) eqn:Ev; [unfold T_vsa, T_ipaddr, T_ipv6addr in *; lia|reflexivity]. }
  destruct ((ga_type a =? T_ipv6prefix) || (ga_type a =? T_ifid) || (ga_type a =? T_date) || (ga_type a =? T_byte)) eqn:E3.
  { destruct (ga_type a =? T_vsa) eqn:Ev; [unfold T_vsa, T_ipv6prefix, T_ifid, T_date, T_byte in *; lia|reflexivity]. }
  destruct ((ga_type a =? T_short) || (ga_type a =? T_integer) || (ga_type a =? T_integer64)) eqn:E4.
  { destruct (ga_type a =? T_vsa) eqn:Ev; [unfold T_vsa, T_short, T_integer, T_integer64 in *; lia|].
    unfold fnames. rewrite !flat_map_app. cbn [flat_map app].
    assert (Hn : flat_map (fun d => match d with DFunc _ f _ _ _ => [f] | _ => [] end)
                   (map (fun v => DValueConst (ga_ident a) (gl_ident v) (gl_num v)) (values_of_attr a vals)) = []).
    { induction (values_of_attr a vals) as [|v l IH]; [reflexivity|exact IH]. }
    rewrite Hn. reflexivity. }
  destruct (ga_type a =? T_vsa) eqn:Ev; [reflexivity|].
  unfold supported in Hs. rewrite E1 in Hs. unfold is_str in E1. lia.
Qed.

(* a tag parameter exactly when the attribute is tagged, a request-packet parameter exactly when it is
   salt-encrypted (on the functions that read), every function named after the attribute *)
Theorem funcs_flags a vals id f tg q vt : valid a -> In (DFunc id f tg q vt) (funcs a vals) ->
  id = ga_ident a /\ tg = (has_tag a && negb (is_del f)) /\ q = (salted a && is_getter f).
Proof.
  intros Hv Hin. destruct (valid_common a Hv) as (Hc & _ & Hcc).
  assert (Htag : has_tag a = true -> is_str (ga_type a) = true \/ ga_type a = T_integer).
  { intros Ht. unfold common_invalid in Hc. rewrite Ht in Hc. cbn [andb] in Hc.
    destruct (is_str (ga_type a)); [left; reflexivity|]. right. cbn [orb negb] in Hc. lia. }
  assert (Hsalt : salted a = true -> is_str (ga_type a) = true \/
                    (((ga_type a =? T_ipaddr) || (ga_type a =? T_ipv6addr) = true \/ is_int (ga_type a) = true) /\ True)).
  { intros Hs. unfold salted in Hs. destruct (ga_enc a) as [e|] eqn:Ee; [|discriminate].
    unfold common_invalid in Hc. rewrite Ee in Hc. unfold enc_supported in Hc.
    destruct (is_str (ga_type a)); [left; reflexivity|]. right.
    destruct ((ga_type a =? T_ipaddr) || (ga_type a =? T_ipv6addr)); [auto|].
    destruct (is_int (ga_type a)); [auto|]. cbn [negb orb] in Hc. rewrite !orb_true_r in Hc. discriminate. }
  unfold funcs in Hin.
  destruct (is_str (ga_type a)) eqn:E1.
  - destruct (is_concat a) eqn:Ec.
    + destruct (Hcc eq_refl) as (_ & He & Ht). assert (has_tag a = false) by (unfold has_tag; rewrite Ht; reflexivity).
      assert (salted a = false) by (unfold salted; rewrite He; reflexivity).
      cbn [In] in Hin. repeat (destruct Hin as [Hin|Hin]; [inversion Hin; subst; rewrite ?H, ?H0; auto|]). destruct Hin.
    + cbn [In] in Hin. repeat (destruct Hin as [Hin|Hin]; [inversion Hin; subst; cbn [is_del is_getter negb]; rewrite ?andb_true_r, ?andb_false_r; auto|]). destruct Hin.
  - destruct ((ga_type a =? T_ipaddr) || (ga_type a =? T_ipv6addr)) eqn:E2.
    + assert (has_tag a = false).
      { destruct (has_tag a) eqn:Ht; [|reflexivity]. destruct (Htag eq_refl) as [H|H]; [discriminate|]. unfold T_integer, T_ipaddr, T_ipv6addr in *. lia. }
      cbn [In] in Hin. repeat (destruct Hin as [Hin|Hin]; [inversion Hin; subst; cbn [is_del is_getter negb]; rewrite ?H, ?andb_true_r, ?andb_false_r; auto|]). destruct Hin.
    + destruct ((ga_type a =? T_ipv6prefix) || (ga_type a =? T_ifid) || (ga_type a =? T_date) || (ga_type a =? T_byte)) eqn:E3.
      * assert (has_tag a = false).
        { destruct (has_tag a) eqn:Ht; [|reflexivity]. destruct (Htag eq_refl) as [H|H]; [discriminate|].
          unfold T_integer, T_ipv6prefix, T_ifid, T_date, T_byte in *. lia. }
        assert (salted a = false).
        { destruct (salted a) eqn:Hs; [|reflexivity]. destruct (Hsalt eq_refl) as [H'|[[H'|H'] _]]; [discriminate|congruence|].
          unfold is_int, T_short, T_integer, T_integer64, T_ipv6prefix, T_ifid, T_date, T_byte in *. lia. }
        cbn [In] in Hin. repeat (destruct Hin as [Hin|Hin]; [inversion Hin; subst; cbn [is_del is_getter negb]; rewrite ?H, ?H0; auto|]). destruct Hin.
      * destruct ((ga_type a =? T_short) || (ga_type a =? T_integer) || (ga_type a =? T_integer64)) eqn:E4; [|destruct Hin].
        apply in_app_or in Hin. destruct Hin as [Hin|Hin]; [destruct Hin as [Hin|[]]; discriminate|].
        apply in_app_or in Hin. destruct Hin as [Hin|Hin].
        { apply in_map_iff in Hin. destruct Hin as (v & Hv' & _). discriminate. }
        cbn [In] in Hin. repeat (destruct Hin as [Hin|Hin]; [try discriminate; inversion Hin; subst; cbn [is_del is_getter negb]; rewrite ?andb_true_r, ?andb_false_r; auto|]). destruct Hin.
Qed.

(* ---- non-vacuity ---- *)
Definition b (s : list N) : bytes := s.
Definition ex_a1 := mkgattr [85;115;101;114]%N [85;115;101;114]%N [1] T_string None None None None.            (* "User" 1 string *)
Definition ex_a2 := mkgattr [84;121;112;101]%N [84;121;112;101]%N [6] T_integer None None (Some true) None.     (* "Type" 6 integer has_tag *)
Definition ex_a3 := mkgattr [75;101;121]%N [75;101;121]%N [16] T_octets None (Some 2) None None.                (* "Key" 16 octets encrypt=2, vendor *)
Definition ex_v1 := mkgvalue [84;121;112;101]%N [65]%N [65]%N 1.
Definition ex_v2 := mkgvalue [84;121;112;101]%N [66]%N [66]%N 2.
Definition ex_vendor := mkgvendor [77;83]%N [77;83]%N 311 1 1 [ex_a3] [].
Definition ex_o := mkgopts [[88]%N] [].
Definition ex_d := mkgdict [ex_a2; ex_a1] [ex_v2; ex_v1] [ex_vendor].
Definition ex_d' := mkgdict [ex_a1; ex_a2] [ex_v1; ex_v2] [ex_vendor].

Example ex_accepted : accepts ex_o ex_d /\ distinct_keys ex_o ex_d /\ dict_perm ex_d ex_d'.
Proof.
  split; [|split].
  - pose proof (gen_refines ex_o ex_d) as H. vm_compute gen in H. apply H.
  - unfold distinct_keys. split; [|split; [|split]].
    + intros a c Ha Hc. vm_compute in Ha, Hc. destruct Ha as [<-|[<-|[]]]; destruct Hc as [<-|[<-|[]]];
        intros H1 H2; try reflexivity; try discriminate H1; try discriminate H2.
    + intros a c Ha Hc. vm_compute in Ha, Hc. destruct Ha as [<-|[<-|[]]]; destruct Hc as [<-|[<-|[]]];
        intros H1 H2 H3; try reflexivity; try discriminate H1; try discriminate H3.
    + intros v Hv. vm_compute in Hv. destruct Hv as [<-|[]]. split.
      * intros a c Ha Hc. vm_compute in Ha, Hc. destruct Ha as [<-|[]]; destruct Hc as [<-|[]]. reflexivity.
      * intros a c [].
    + intros v w Hv Hw. vm_compute in Hv, Hw. destruct Hv as [<-|[]]; destruct Hw as [<-|[]]. reflexivity.
  - unfold dict_perm. cbn. split; [apply perm_swap|]. split; [apply perm_swap|].
    exists [ex_vendor]. split; [|reflexivity]. constructor; [|constructor]. unfold vendor_same. repeat split; reflexivity.
Qed.
Example ex_same_output : gen ex_o ex_d = gen ex_o ex_d' /\ exists ds, gen ex_o ex_d = Ok ds /\ length ds = 41%nat.
Proof. vm_compute. split; [reflexivity|]. eexists. split; reflexivity. Qed.

(* the hypothesis is needed: two declarations with the same number and the same name come out in
   declaration order (the dictionary parser refuses such input; the structure does not) *)
Definition ex_dup1 := mkgattr [65]%N [65]%N [1] T_string None None None None.
Definition ex_dup2 := mkgattr [65]%N [66]%N [1] T_octets None None None None.
Example order_matters_without_distinct_keys :
  gen (mkgopts [] []) (mkgdict [ex_dup1; ex_dup2] [] []) <> gen (mkgopts [] []) (mkgdict [ex_dup2; ex_dup1] [] []).
Proof. vm_compute. discriminate. Qed.

(* ---- named value constants: one per declared number, each taken from a VALUE line of the attribute ---- *)
Lemma dedup_In l w : In w (dedup l) -> In w l.
Proof.
  revert w. induction l as [|v r IH]; intros w H; [destruct H|]. cbn [dedup] in H.
  destruct (dedup r) as [|x r'] eqn:E.
  - destruct H as [<-|[]]. left. reflexivity.
  - destruct (gl_num v =? gl_num x).
    + right. apply IH. exact H.
    + destruct H as [<-|H]; [left; reflexivity|right; apply IH; exact H].
Qed.
Lemma dedup_covers l v : In v l -> exists w, In w (dedup l) /\ gl_num w = gl_num v.
Proof.
  induction l as [|u r IH]; intros H; [destruct H|]. cbn [dedup].
  destruct (dedup r) as [|x r'] eqn:E.
  - destruct H as [<-|H]; [exists u; split; [left; reflexivity|reflexivity]|].
    destruct (IH H) as (w & [] & _).
  - destruct (gl_num u =? gl_num x) eqn:En.
    + destruct H as [<-|H]; [exists x; split; [left; reflexivity|lia]|]. exact (IH H).
    + destruct H as [<-|H]; [exists u; split; [left; reflexivity|reflexivity]|].
      destruct (IH H) as (w & Hw & Hn). exists w. split; [right; exact Hw|exact Hn].
Qed.

(* numbers do not decrease along the list *)
Inductive ascending : list gvalue -> Prop :=
| asc_nil : ascending []
| asc_cons v l : Forall (fun w => gl_num v <= gl_num w) l -> ascending l -> ascending (v :: l).

Lemma sorted_ascending l : sorted value_lt l -> ascending l.
Proof.
  induction 1 as [|x l Hx _ IH]; constructor; [|exact IH].
  eapply Forall_impl; [|exact Hx]. cbv beta. intros w Hw. unfold value_lt in Hw.
  destruct (gl_num w =? gl_num x) eqn:E; cbn [negb] in Hw; lia.
Qed.
Lemma ascending_filter f l : ascending l -> ascending (filter f l).
Proof.
  induction 1 as [|v l Hv _ IH]; cbn [filter]; [constructor|].
  destruct (f v); [|exact IH]. constructor; [|exact IH].
  apply Forall_forall. intros w Hw. apply filter_In in Hw. rewrite Forall_forall in Hv. apply Hv, Hw.
Qed.
Lemma dedup_strict l : ascending l ->
  ascending (dedup l) /\ NoDup (map gl_num (dedup l)) /\ (forall w, In w (dedup l) -> forall v, In v l -> gl_num v = gl_num w \/ True).
Proof.
  intros Ha. split; [|split; [|auto]].
  - induction Ha as [|v l Hv _ IH]; [constructor|]. cbn [dedup].
    destruct (dedup l) as [|x r'] eqn:E; [constructor; constructor|].
    destruct (gl_num v =? gl_num x); [exact IH|]. constructor; [|exact IH].
    apply Forall_forall. intros w Hw. rewrite Forall_forall in Hv. apply Hv. apply dedup_In. rewrite E. exact Hw.
  - induction Ha as [|v l Hv Hal IH]; [constructor|]. cbn [dedup].
    destruct (dedup l) as [|x r'] eqn:E; [cbn; constructor; [intros []|constructor]|].
    destruct (gl_num v =? gl_num x) eqn:En; [exact IH|].
    cbn [map]. constructor; [|exact IH].
    (* every number further on is >= the head of the deduplicated tail, which is > v's *)
    assert (Hasc : ascending (x :: r')).
    { rewrite <- E. clear -Hal. induction Hal as [|u l Hu _ IHl]; [constructor|]. cbn [dedup].
      destruct (dedup l) as [|y r''] eqn:E'; [constructor; constructor|].
      destruct (gl_num u =? gl_num y); [exact IHl|]. constructor; [|exact IHl].
      apply Forall_forall. intros w Hw. rewrite Forall_forall in Hu. apply Hu. apply dedup_In. rewrite E'. exact Hw. }
    inversion Hasc as [|? ? Hx _]; subst. rewrite Forall_forall in Hv, Hx.
    assert (Hvx : gl_num v <= gl_num x) by (apply Hv, dedup_In; rewrite E; left; reflexivity).
    intros Hin. cbn [map] in Hin. destruct Hin as [Hin|Hin]; [lia|].
    apply in_map_iff in Hin. destruct Hin as (w & Hw & Hin). specialize (Hx w Hin). lia.
Qed.

Theorem value_constants a vals :
  let vs := values_of_attr a (sort value_lt vals) in
  (forall w, In w vs -> In w vals /\ gl_attr w = ga_name a) /\
  (forall v, In v vals -> gl_attr v = ga_name a -> exists w, In w vs /\ gl_num w = gl_num v) /\
  NoDup (map gl_num vs).
Proof.
  cbv zeta. unfold values_of_attr. split; [|split].
  - intros w Hw. apply dedup_In in Hw. apply filter_In in Hw. destruct Hw as [Hw Hb]. apply beq_spec in Hb.
    split; [exact (proj1 (sort_In _ _ _) Hw)|exact Hb].
  - intros v Hv Ha. apply dedup_covers. apply filter_In. split; [exact (proj2 (sort_In _ _ _) Hv)|rewrite Ha; apply beq_refl].
  - apply dedup_strict. apply ascending_filter, sorted_ascending, sort_sorted.
    + apply value_lt_asym.
    + intros x y z H1 H2. eapply value_lt_trans; eassumption.
Qed.
