(* Proofs/DictInclude.v — the dictionary parser terminates on every text and
   include graph, reports include cycles and only those, closes what it opens and
   positions its errors (C15). *)
From Radius Require Import Base.Bytes Base.Res Model.Dict.
From Coq Require Import ZifyBool ZifyNat ZifyN.
Open Scope nat_scope.

Section P.
Variable ign : bool.
Variable opener : str -> option (str * bytes).

Notation plines := (parse_lines ign opener).
Notation pfile := (parse_file ign opener).

Definition not_fuel (r : pres dict * list ioev) : Prop := fst r <> PFuel.

(* ---- termination ---- *)
Lemma existsb_beq_In c l : existsb (beq c) l = true <-> In c l.
Proof.
  rewrite existsb_exists. split.
  - intros (x & Hin & Hb). apply beq_spec in Hb. subst. exact Hin.
  - intros Hin. exists c. split; [exact Hin|apply beq_refl].
Qed.

Section Term.
(* all canonical names the opener can ever deliver *)
Variable universe : list str.
Hypothesis opener_in_universe : forall n cn body, opener n = Some (cn, body) -> In cn universe.

Definition fresh (path : list str) : list str :=
  filter (fun c => negb (existsb (beq c) path)) (nodup (list_eq_dec N.eq_dec) universe).

Lemma fresh_cons_lt path cn : In cn universe -> existsb (beq cn) path = false ->
  length (fresh (cn :: path)) < length (fresh path).
Proof.
  intros Hu Hp. unfold fresh.
  assert (Hin : In cn (nodup (list_eq_dec N.eq_dec) universe)) by (apply nodup_In; exact Hu).
  induction (nodup (list_eq_dec N.eq_dec) universe) as [|x l IH]; [contradiction|].
  cbn [filter existsb].
  destruct (beq x cn) eqn:Exc.
  - apply beq_spec in Exc. subst x. rewrite Hp. cbn [negb orb length].
    (* the remaining elements lose nothing more than before *)
    assert (Hle : forall l', length (filter (fun c => negb (beq c cn || existsb (beq c) path)) l') <=
                         length (filter (fun c => negb (existsb (beq c) path)) l')).
    { induction l' as [|y l' IH']; cbn [filter length]; [lia|].
      destruct (existsb (beq y) path); [rewrite orb_true_r; cbn [negb]; exact IH'|].
      rewrite orb_false_r. destruct (beq y cn); cbn [negb length]; lia. }
    specialize (Hle l). apply Nat.lt_succ_r. exact Hle.
  - destruct Hin as [Hx|Hin]; [subst; rewrite beq_refl in Exc; discriminate|].
    specialize (IH Hin). cbn [existsb] in IH. cbn [orb]. destruct (existsb (beq x) path); cbn [negb length]; lia.
Qed.

Lemma plines_not_fuel recur : forall ls path fname lineNo vb d tr,
  (forall cn body d' tr', In cn universe -> existsb (beq cn) path = false ->
      not_fuel (recur (cn :: path) cn body d' tr')) ->
  not_fuel (plines recur path fname ls lineNo vb d tr).
Proof.
  unfold not_fuel. induction ls as [|l rest IH]; intros path fname lineNo vb d tr Hrec; cbn [parse_lines].
  - destruct vb; cbn; discriminate.
  - destruct (too_long l); [cbn; discriminate|].
    destruct (classify_line l) eqn:Ec;
      try (destruct (apply_simple ign d vb _) as [[d' vb']| | |]; [apply IH; exact Hrec|cbn; discriminate..]).
    destruct vb; [cbn; discriminate|].
    destruct (opener n) as [[cn body]|] eqn:Eo; [|cbn; discriminate].
    destruct (existsb (beq cn) path) eqn:Ep; [cbn; discriminate|].
    pose proof (Hrec cn body d (tr ++ [EvOpen cn]) (opener_in_universe _ _ _ Eo) Ep) as Hr1.
    destruct (recur (cn :: path) cn body d (tr ++ [EvOpen cn])) as [[d'|e|] tr2]; cbn [fst] in *.
    + apply IH. exact Hrec.
    + discriminate.
    + contradiction.
Qed.

Theorem pfile_not_fuel : forall fuel path fname text d tr,
  length (fresh path) < fuel -> not_fuel (pfile fuel path fname text d tr).
Proof.
  induction fuel as [|fu IH]; intros path fname text d tr Hf; [lia|].
  cbn [parse_file]. apply plines_not_fuel. intros cn body d' tr' Hu Hp.
  apply IH. pose proof (fresh_cons_lt path cn Hu Hp). lia.
Qed.

(* fuel = number of distinct file names + 1 always suffices *)
Theorem parse_total fname text :
  fst (parse_root ign opener (S (length universe)) fname text) <> PFuel.
Proof.
  unfold parse_root. apply pfile_not_fuel.
  unfold fresh.
  assert (Hfl : forall (f : str -> bool) l, length (filter f l) <= length l).
  { intros f l. induction l as [|x l IH]; cbn [filter length]; [lia|]. destruct (f x); cbn [length]; lia. }
  eapply Nat.le_lt_trans; [apply Hfl|].
  pose proof (NoDup_incl_length (NoDup_nodup (list_eq_dec N.eq_dec) universe)
                (fun x Hx => proj1 (nodup_In (list_eq_dec N.eq_dec) universe x) Hx)) as Hn.
  apply Nat.lt_succ_r. exact Hn.
Qed.

End Term.

(* ---- cycles ---- *)
(* the line-level functions never produce the RecursiveInclude class themselves *)
Lemma apply_flags_err fl : forall a e, apply_flags fl a = Err e -> e = PE_dupflag \/ e = PE_enctype \/ e = PE_flag.
Proof.
  induction fl as [|f r IH]; intros a e; cbn [apply_flags]; [discriminate|].
  destruct (has_prefix _ f).
  - destruct (a_encrypt a); [intros E; inversion E; auto|].
    destruct (parse_int32 _); [apply IH|intros E; inversion E; auto].
  - destruct (beq f _).
    + destruct (a_has_tag a); [intros E; inversion E; auto|apply IH].
    + destruct (beq f _); [destruct (a_concat a); [intros E; inversion E; auto|apply IH]|intros E; inversion E; auto].
Qed.

Lemma apply_simple_not_recursive d vb act e : apply_simple ign d vb act = Err e -> e <> PE_recursive.
Proof.
  destruct act; cbn [apply_simple]; try discriminate.
  - unfold parse_attribute. destruct (parse_oid f2) as [|o os]; [intros E; inversion E; discriminate|].
    match goal with |- context [match ?ts with Some _ => _ | None => Err PE_type end] => destruct ts as [[t sz]|] end;
      [|intros E; inversion E; discriminate].
    destruct f4 as [fl|].
    + destruct (apply_flags _ _) as [a|e'| |] eqn:Ef.
      * destruct (attr_by_name _ _); [destruct (_ && _); intros E; inversion E; discriminate|].
        destruct vb; discriminate.
      * intros E; inversion E; subst. destruct (apply_flags_err _ _ _ Ef) as [->|[->| ->]]; discriminate.
      * discriminate.
      * discriminate.
    + destruct (attr_by_name _ _); [destruct (_ && _); intros E; inversion E; discriminate|].
      destruct vb; discriminate.
  - unfold parse_value. destruct (if has_prefix _ f3 then _ else _); [destruct vb; discriminate|intros E; inversion E; discriminate].
  - unfold parse_vendor. destruct (parse_int32 f2); [|intros E; inversion E; discriminate].
    destruct f3 as [fm|].
    + destruct (_ || _); [intros E; inversion E; discriminate|].
      destruct (_ || _ || _); [intros E; inversion E; discriminate|].
      destruct (vendor_by_name_or_number _ _ _); [intros E; inversion E; discriminate|discriminate].
    + destruct (vendor_by_name_or_number _ _ _); [intros E; inversion E; discriminate|discriminate].
  - destruct vb; [intros E; inversion E; discriminate|].
    destruct (vendor_index_by_name _ _ _); [discriminate|intros E; inversion E; discriminate].
  - destruct vb; [|intros E; inversion E; discriminate].
    destruct (nth_error _ _); [|discriminate]. destruct (beq _ _); [discriminate|intros E; inversion E; discriminate].
  - intros E; inversion E; discriminate.
Qed.

(* an include of a file that is on the current include path is reported at once,
   at that line of that file, after closing the file just opened *)
Theorem cycle_step_reported recur path fname l rest lineNo d tr n cn body :
  too_long l = false -> classify_line l = LInclude n -> opener n = Some (cn, body) -> In cn path ->
  plines recur path fname (l :: rest) lineNo None d tr =
  (PFail (ParseErr PE_recursive fname lineNo), tr ++ [EvOpen cn] ++ [EvClose cn]).
Proof.
  intros Hl Hc Ho Hin. cbn [parse_lines]. rewrite Hl, Hc, Ho.
  apply existsb_beq_In in Hin. rewrite Hin. rewrite <- app_assoc. reflexivity.
Qed.

(* a file includes the name n *)
Definition includes (text : bytes) (n : str) : Prop :=
  In (LInclude n) (map classify_line (scan_lines text)).

(* no cycle is ever reported when the include relation is acyclic (has a rank
   that decreases along every include edge): diamonds and repeated includes are fine *)
Section Acyc.
Variable rank : str -> nat.
Hypothesis rank_decreases : forall n cn body n' cn' body',
  opener n = Some (cn, body) -> includes body n' -> opener n' = Some (cn', body') -> rank cn' < rank cn.

Definition is_recursive (r : pres dict * list ioev) : Prop :=
  exists f l, fst r = PFail (ParseErr PE_recursive f l).

Lemma plines_no_false_cycle recur : forall ls path fname lineNo vb d tr,
  (forall p, In p path -> rank fname <= rank p) ->
  (forall n cn body, In (LInclude n) (map classify_line ls) -> opener n = Some (cn, body) -> rank cn < rank fname) ->
  (forall n cn body d' tr', opener n = Some (cn, body) -> rank cn < rank fname ->
      ~ is_recursive (recur (cn :: path) cn body d' tr')) ->
  ~ is_recursive (plines recur path fname ls lineNo vb d tr).
Proof.
  unfold is_recursive.
  induction ls as [|l rest IH]; intros path fname lineNo vb d tr Hpath Hedge Hrec; cbn [parse_lines].
  - destruct vb; cbn [fst]; intros (f & k & E); discriminate.
  - destruct (too_long l); [cbn [fst]; intros (f & k & E); discriminate|].
    assert (Hedge' : forall n cn body, In (LInclude n) (map classify_line rest) -> opener n = Some (cn, body) -> rank cn < rank fname).
    { intros n cn body Hin. apply Hedge. cbn [map]. right. exact Hin. }
    destruct (classify_line l) eqn:Ec;
      try (destruct (apply_simple ign d vb _) as [[d' vb']|e'| |] eqn:Ea;
           [apply IH; assumption
           |cbn [fst]; intros (f & k & E); inversion E; subst; exact (apply_simple_not_recursive _ _ _ _ Ea eq_refl)
           |cbn [fst]; intros (f & k & E); discriminate..]).
    destruct vb; [cbn [fst]; intros (f & k & E); discriminate|].
    destruct (opener n) as [[cn body]|] eqn:Eo; [|cbn [fst]; intros (f & k & E); discriminate].
    assert (Hr : rank cn < rank fname) by (eapply Hedge; [cbn [map]; left; exact Ec|exact Eo]).
    destruct (existsb (beq cn) path) eqn:Ep.
    { apply existsb_beq_In in Ep. specialize (Hpath cn Ep). lia. }
    pose proof (Hrec n cn body d (tr ++ [EvOpen cn]) Eo Hr) as Hrc.
    destruct (recur (cn :: path) cn body d (tr ++ [EvOpen cn])) as [[d'|e|] tr2]; cbn [fst] in *.
    + apply IH; assumption.
    + exact Hrc.
    + intros (f & k & E); discriminate.
Qed.

Theorem pfile_no_false_cycle : forall fuel path fname text d tr,
  (forall p, In p path -> rank fname <= rank p) ->
  (forall n cn body, includes text n -> opener n = Some (cn, body) -> rank cn < rank fname) ->
  ~ is_recursive (pfile fuel path fname text d tr).
Proof.
  induction fuel as [|fu IH]; intros path fname text d tr Hpath Hedge.
  - cbn. intros (f & k & E). discriminate.
  - cbn [parse_file]. apply plines_no_false_cycle; [exact Hpath|exact Hedge|].
    intros n cn body d' tr' Ho Hr. apply IH.
    + intros p [Hp|Hp]; [subst; lia|]. specialize (Hpath p Hp). lia.
    + intros n' cn' body' Hinc Ho'. eapply rank_decreases; eassumption.
Qed.

(* acyclic include graphs (incl. diamonds and repeated includes) never produce RecursiveInclude *)
Theorem acyclic_not_reported fuel fname text :
  (forall n cn body, includes text n -> opener n = Some (cn, body) -> rank cn < rank fname) ->
  ~ is_recursive (parse_root ign opener fuel fname text).
Proof.
  intros Hedge. unfold parse_root. apply pfile_no_false_cycle; [|exact Hedge].
  intros p [Hp|[]]. subst. lia.
Qed.

End Acyc.

(* ---- error positions ---- *)
(* an error raised by this level of the loop names this file and the 1-based
   number of the offending line; errors of included files are passed through *)
Definition err_here (fname : str) (lo hi : nat) (r : pres dict * list ioev) : Prop :=
  match fst r with
  | PFail (ParseErr _ f l) => f = fname /\ lo <= l <= hi
  | _ => True
  end.

Lemma err_here_weaken f lo hi lo' hi' r : err_here f lo hi r -> lo' <= lo -> hi <= hi' -> err_here f lo' hi' r.
Proof.
  unfold err_here. destruct (fst r) as [?|[c g k|c]|]; auto. intros [E H] H1 H2. split; [exact E|lia].
Qed.

Lemma plines_error_position recur : forall ls path fname lineNo vb d tr,
  1 <= lineNo ->
  (forall p cn body d' tr', match fst (recur p cn body d' tr') with PFail (ParseErr _ _ _) => False | _ => True end) ->
  err_here fname (lineNo - 1) (lineNo + length ls) (plines recur path fname ls lineNo vb d tr).
Proof.
  induction ls as [|l rest IH]; intros path fname lineNo vb d tr Hl Hrec; cbn [parse_lines length].
  - unfold err_here. destruct vb; cbn [fst]; [split; [reflexivity|lia]|exact I].
  - destruct (too_long l); [unfold err_here; cbn [fst]; exact I|].
    assert (Hnext : forall vb' d' tr', err_here fname (lineNo - 1) (lineNo + S (length rest))
                       (plines recur path fname rest (S lineNo) vb' d' tr')).
    { intros. eapply err_here_weaken; [apply IH; [lia|exact Hrec]|lia|lia]. }
    assert (Hhere : forall c, err_here fname (lineNo - 1) (lineNo + S (length rest))
                       (PFail (ParseErr c fname lineNo), tr)).
    { intros. unfold err_here. cbn [fst]. split; [reflexivity|lia]. }
    destruct (classify_line l) eqn:Ec;
      try (destruct (apply_simple ign d vb _) as [[d' vb']|e'| |];
           [apply Hnext|apply Hhere|unfold err_here; cbn [fst]; exact I..]).
    destruct vb; [apply Hhere|].
    destruct (opener n) as [[cn body]|]; [|apply Hhere].
    destruct (existsb (beq cn) path); [unfold err_here; cbn [fst]; split; [reflexivity|lia]|].
    pose proof (Hrec (cn :: path) cn body d (tr ++ [EvOpen cn])) as Hr1.
    destruct (recur (cn :: path) cn body d (tr ++ [EvOpen cn])) as [[d'|e|] tr2]; cbn [fst] in *.
    + apply Hnext.
    + unfold err_here. cbn [fst]. destruct e; [contradiction|exact I].
    + unfold err_here. cbn [fst]. exact I.
Qed.

(* ---- every opened file is closed ---- *)
(* replay the trace against the stack of files currently open: Close must
   close the most recently opened file; a repeated Close on it changes nothing *)
Fixpoint replay (stack : list str) (tr : list ioev) : option (list str) :=
  match tr with
  | [] => Some stack
  | EvOpen n :: r => replay (n :: stack) r
  | EvClose n :: r => match stack with top :: st => if beq top n then replay st r else None | [] => None end
  | EvReclose _ :: r => replay stack r
  end.

Lemma replay_app a : forall stack b,
  replay stack (a ++ b) = match replay stack a with Some s' => replay s' b | None => None end.
Proof.
  induction a as [|e a IH]; intros stack b; [reflexivity|]. cbn [app replay].
  destruct e as [n|n|n]; [apply IH| |apply IH].
  destruct stack as [|top st]; [reflexivity|]. destruct (beq top n); [apply IH|reflexivity].
Qed.

(* the events a call appends leave the stack of open files as it found it *)
Definition balanced_ext (tr : list ioev) (r : pres dict * list ioev) : Prop :=
  fst r <> PFuel -> exists tr', snd r = tr ++ tr' /\ forall stack, replay stack tr' = Some stack.

Lemma plines_balanced recur : forall ls path fname lineNo vb d tr,
  (forall p cn body d' tr', balanced_ext tr' (recur p cn body d' tr')) ->
  balanced_ext tr (plines recur path fname ls lineNo vb d tr).
Proof.
  unfold balanced_ext.
  induction ls as [|l rest IH]; intros path fname lineNo vb d tr Hrec; cbn [parse_lines].
  - destruct vb; cbn [fst snd]; intros _; exists []; rewrite app_nil_r; auto.
  - destruct (too_long l); [cbn [fst snd]; intros _; exists []; rewrite app_nil_r; auto|].
    destruct (classify_line l) eqn:Ec;
      try (destruct (apply_simple ign d vb _) as [[d' vb']|e'| |];
           [apply IH; exact Hrec|cbn [fst snd]; intros _; exists []; rewrite app_nil_r; auto..]).
    destruct vb; [cbn [fst snd]; intros _; exists []; rewrite app_nil_r; auto|].
    destruct (opener n) as [[cn body]|]; [|cbn [fst snd]; intros _; exists []; rewrite app_nil_r; auto].
    destruct (existsb (beq cn) path).
    { cbn [fst snd]. intros _. exists [EvOpen cn; EvClose cn]. split; [rewrite <- app_assoc; reflexivity|].
      intros stack. cbn [replay]. rewrite beq_refl. reflexivity. }
    pose proof (Hrec (cn :: path) cn body d (tr ++ [EvOpen cn])) as Hr1.
    destruct (recur (cn :: path) cn body d (tr ++ [EvOpen cn])) as [[d'|e|] tr2]; cbn [fst snd] in *.
    + destruct (Hr1 ltac:(discriminate)) as (t1 & E1 & B1).
      intros Hnf. destruct (IH path fname (S lineNo) None d' (tr2 ++ [EvClose cn; EvReclose cn]) Hrec Hnf) as (t2 & E2 & B2).
      exists ([EvOpen cn] ++ t1 ++ [EvClose cn; EvReclose cn] ++ t2). split.
      * rewrite E2, E1. rewrite <- !app_assoc. reflexivity.
      * intros stack. cbn [app replay]. rewrite replay_app, B1. cbn [app replay]. rewrite beq_refl. apply B2.
    + destruct (Hr1 ltac:(discriminate)) as (t1 & E1 & B1). intros _.
      exists ([EvOpen cn] ++ t1 ++ [EvClose cn]). split.
      * rewrite E1. rewrite <- !app_assoc. reflexivity.
      * intros stack. cbn [app replay]. rewrite replay_app, B1. cbn [replay]. rewrite beq_refl. reflexivity.
    + intros Hf. contradiction.
Qed.

Theorem pfile_balanced : forall fuel path fname text d tr,
  balanced_ext tr (pfile fuel path fname text d tr).
Proof.
  induction fuel as [|fu IH]; intros path fname text d tr.
  - unfold balanced_ext. cbn. intros Hf. contradiction.
  - cbn [parse_file]. apply plines_balanced. intros. apply IH.
Qed.

(* every file opened for an include is closed, in LIFO order, whatever the outcome *)
Theorem opens_closed fuel fname text :
  fst (parse_root ign opener fuel fname text) <> PFuel ->
  replay [] (snd (parse_root ign opener fuel fname text)) = Some [].
Proof.
  intros Hf. destruct (pfile_balanced fuel [fname] fname text empty_dict [] Hf) as (t & E & B).
  unfold parse_root. rewrite E. cbn [app]. apply B.
Qed.

(* at top level, an error names the root file (or an included one) and a line within it *)
Theorem error_position_root fuel fname text :
  forall c f l, fst (parse_root ign opener (S fuel) fname text) = PFail (ParseErr c f l) ->
  (f = fname /\ 0 <= l <= 1 + length (scan_lines text)) \/
  (exists p cn body d tr, fst (pfile fuel p cn body d tr) = PFail (ParseErr c f l)).
Proof.
  intros c f l. unfold parse_root. cbn [parse_file].
  generalize (scan_lines text) as ls. generalize 1 as lineNo. generalize (@None nat) as vb.
  generalize empty_dict as d. generalize (@nil ioev) as tr.
  intros tr d vb lineNo ls. revert tr d vb lineNo.
  induction ls as [|x rest IH]; intros tr d vb lineNo; cbn [parse_lines].
  - destruct vb; cbn [fst]; intros E; inversion E; subst. left. split; [reflexivity|cbn [length]; lia].
  - destruct (too_long x); [cbn [fst]; discriminate|].
    assert (Hgo : forall tr' d' vb', fst (plines (pfile fuel) [fname] fname rest (S lineNo) vb' d' tr') = PFail (ParseErr c f l) ->
              (f = fname /\ 0 <= l <= S lineNo + length rest) \/
              (exists p cn body d0 tr0, fst (pfile fuel p cn body d0 tr0) = PFail (ParseErr c f l))) by (intros; eapply IH; eassumption).
    destruct (classify_line x) eqn:Ec;
      try (destruct (apply_simple ign d vb _) as [[d' vb']|e'| |];
           [intros E; destruct (Hgo _ _ _ E) as [[Hf Hl]|Hn]; [left; split; [exact Hf|cbn [length]; lia]|right; exact Hn]
           |cbn [fst]; intros E; inversion E; subst; left; split; [reflexivity|cbn [length]; lia]
           |cbn [fst]; discriminate..]).
    destruct vb; [cbn [fst]; intros E; inversion E; subst; left; split; [reflexivity|cbn [length]; lia]|].
    destruct (opener n) as [[cn body]|]; [|cbn [fst]; intros E; inversion E; subst; left; split; [reflexivity|cbn [length]; lia]].
    destruct (existsb (beq cn) [fname]); [cbn [fst]; intros E; inversion E; subst; left; split; [reflexivity|cbn [length]; lia]|].
    destruct (pfile fuel (cn :: [fname]) cn body d (tr ++ [EvOpen cn])) as [[d'|e|] tr2] eqn:Er; cbn [fst].
    + intros E; destruct (Hgo _ _ _ E) as [[Hf Hl]|Hn]; [left; split; [exact Hf|cbn [length]; lia]|right; exact Hn].
    + intros E. right. exists (cn :: [fname]), cn, body, d, (tr ++ [EvOpen cn]). rewrite Er. exact E.
    + discriminate.
Qed.
End P.
