(* Proofs/Exchange.v — lifecycle properties of Client.Exchange on the model of
   Model/Exchange.v, for every event sequence (C08, partial: no real time). *)
From Radius Require Import Base.Bytes Base.Guard Base.Res Gen.Consts Model.Attrs Model.Packet Model.Client
  Model.Exchange Proofs.Guards.
From Coq Require Import ZifyBool ZifyNat ZifyN.
Open Scope nat_scope.

Section S.
Variable H : bytes -> bytes.
Variable retry max_errors : Z.
Variable skip_verify : bool.
Variable request : packet.
Notation step := (xstep H retry max_errors skip_verify request).
Notation run := (xrun H retry max_errors skip_verify request).

Definition returned (s : xstate) : bool := match xmain s with M_returned _ => true | _ => false end.

(* I1: whatever is ever written is the one encoding of the request
   I2: a returned call has its socket closed and its ticker stopped
   I3: no helper and nothing sent before the socket exists
   I4: the derived context ends with the caller's
   I5: with Retry <= 0 the ticker is never armed and at most one datagram is written *)
Definition early (s : xstate) : bool := match xmain s with M_start | M_dialled => true | _ => false end.
Definition XInv (s : xstate) : Prop :=
  (forall w, In w (sent s) -> encode H request = Ok w) /\
  (returned s = true -> conn_closed s = true /\ ticker_stopped s = true) /\
  (early s = true -> xhelper s = Hp_none /\ sent s = []) /\
  (ctx_done s = true -> derived_done s = true) /\
  ((retry <= 0)%Z -> length (sent s) <= 1 /\ (xhelper s <> Hp_none -> ticker_stopped s = true)).

Lemma xinv_init : XInv xinit.
Proof. unfold XInv, xinit, returned, early; cbn. repeat split; try tauto; try discriminate; try lia. Qed.

Lemma write_in s w x : In x (write s w) -> In x (sent s) \/ x = w.
Proof.
  unfold write. destruct (conn_closed s); [auto|]. intros Hin. apply in_app_or in Hin.
  destruct Hin as [Hin|[Hx|[]]]; auto.
Qed.
Lemma write_length s w : length (write s w) <= S (length (sent s)).
Proof. unfold write. destruct (conn_closed s); [lia|]. rewrite app_length. cbn. lia. Qed.

Ltac xsolve :=
  unfold XInv, returned, early, set_main, do_return in *;
  cbn [xmain xhelper sent conn_closed ticker_stopped derived_done ctx_done] in *;
  repeat match goal with
  | H : _ /\ _ |- _ => destruct H
  end;
  repeat match goal with
  | E : xmain ?s = _, H : context [xmain ?s] |- _ => lazymatch H with E => fail | _ => rewrite E in H end
  | E : xhelper ?s = _, H : context [xhelper ?s] |- _ => lazymatch H with E => fail | _ => rewrite E in H end
  end;
  repeat split; intros;
  repeat match goal with
  | H : In _ (write _ _) |- _ => apply write_in in H; destruct H
  | H : ?a = ?a -> _ |- _ => specialize (H eq_refl)
  | H : (?x <= ?y)%Z -> _, H' : (?x <= ?y)%Z |- _ => specialize (H H')
  | H : Hp_running <> Hp_none -> _ |- _ => specialize (H ltac:(discriminate))
  | H : Hp_exited <> Hp_none -> _ |- _ => specialize (H ltac:(discriminate))
  | H : _ /\ _ |- _ => destruct H
  end;
  subst; try discriminate; try congruence; try tauto; eauto;
  try (match goal with |- context [length (write ?s ?w)] => pose proof (write_length s w) end; cbn [length] in *; lia);
  try (cbn [length] in *; lia).

Theorem xstep_inv s e : XInv s -> XInv (step s e).
Proof.
  intros I. destruct e; cbn [xstep].
  - (* XStep *)
    destruct (xmain s) as [| |count|r] eqn:Em.
    + destruct (encode H request) as [w|e'| |] eqn:Ee; xsolve.
    + destruct (encode H request) as [w|e'| |] eqn:Ee; try exact I; try (rewrite <- Em; destruct s; cbn in *; subst; exact I).
      rewrite g_Exchange_0.
      assert (Hs : sent s = [] /\ xhelper s = Hp_none) by (unfold XInv, early in I; rewrite Em in I; tauto).
      destruct Hs as [Hs Hh]. unfold write. rewrite Hs.
      destruct (conn_closed s) eqn:Ec; xsolve; cbn [In] in *; try tauto; try lia;
        try (destruct H5 as [H5|[]]; subst; assumption).
    + destruct (conn_closed s) eqn:Ec; [|first [exact I|rewrite <- Em; destruct s; cbn in *; subst; exact I]]. xsolve.
    + exact I.
  - (* XDialFail *)
    destruct (xmain s) as [| |count|r] eqn:Em; try exact I; try (rewrite <- Em; destruct s; cbn in *; subst; exact I).
    xsolve.
  - (* XDatagram *)
    destruct (xmain s) as [| |count|r] eqn:Em; try exact I; try (rewrite <- Em; destruct s; cbn in *; subst; exact I).
    destruct (conn_closed s) eqn:Ec; [first [exact I|rewrite <- Em; destruct s; cbn in *; subst; exact I]|].
    destruct (encode H request) as [w|e'| |] eqn:Ee; try exact I; try (rewrite <- Em; destruct s; cbn in *; subst; exact I).
    destruct (client_loop _ _ _ _ _ _ _ _) as [p i|e' i|c]; xsolve.
  - (* XReadErr *)
    destruct (xmain s) as [| |count|r] eqn:Em; try exact I; try (rewrite <- Em; destruct s; cbn in *; subst; exact I).
    xsolve.
  - (* XTick *)
    destruct (xhelper s) eqn:Eh; try exact I; try (destruct (xmain s) eqn:Em; first [exact I|rewrite <- ?Em; destruct s; cbn in *; subst; exact I]).
    destruct (encode H request) as [w|e'| |] eqn:Ee; try exact I; try (destruct (xmain s) eqn:Em; first [exact I|rewrite <- ?Em; destruct s; cbn in *; subst; exact I]).
    destruct (ticker_stopped s) eqn:Et; [destruct (xmain s) eqn:Em; first [exact I|rewrite <- ?Em; destruct s; cbn in *; subst; exact I]|].
    assert (Hne : early s = false).
    { unfold XInv in I. destruct (early s) eqn:E; [|reflexivity]. destruct I as (_ & _ & I3 & _). destruct (I3 eq_refl). congruence. }
    assert (Hm : forall T (a b c : T), match xmain s with M_start => a | M_dialled => b | _ => c end = c).
    { intros. unfold early in Hne. destruct (xmain s); try discriminate; reflexivity. }
    destruct (xmain s) eqn:Em; unfold early in Hne; rewrite Em in Hne; try discriminate; xsolve.
  - (* XCtxDone *)
    xsolve.
  - (* XHelper *)
    destruct (xhelper s) eqn:Eh; try exact I; try (destruct (xmain s) eqn:Em; first [exact I|rewrite <- ?Em; destruct s; cbn in *; subst; exact I]).
    destruct (derived_done s) eqn:Ed; [|destruct (xmain s) eqn:Em; first [exact I|rewrite <- ?Em; destruct s; cbn in *; subst; exact I]].
    destruct (xmain s) eqn:Em; xsolve.
Qed.

Theorem xrun_inv es : forall s, XInv s -> XInv (run s es).
Proof. induction es as [|e es IH]; intros s Hs; [exact Hs|]. cbn [xrun]. apply IH, xstep_inv, Hs. Qed.

(* every datagram ever written is the single encoding computed from the request *)
Corollary sends_are_wire es w : In w (sent (run xinit es)) -> encode H request = Ok w.
Proof. apply (xrun_inv es xinit xinv_init). Qed.

(* Retry <= 0: exactly one write once the socket exists, and never another *)
Corollary no_retry_when_nonpositive es : (retry <= 0)%Z -> length (sent (run xinit es)) <= 1.
Proof. intros Hr. apply (xrun_inv es xinit xinv_init). exact Hr. Qed.

(* once returned, the state is frozen: nothing is sent, the socket stays closed,
   and the helper can only exit *)
Theorem nothing_after_return s e : XInv s -> returned s = true ->
  sent (step s e) = sent s /\ conn_closed (step s e) = true /\ returned (step s e) = true /\
  (xhelper (step s e) = xhelper s \/ xhelper (step s e) = Hp_exited).
Proof.
  intros (I1 & I2 & I3 & I4 & I5) Hr. destruct (I2 Hr) as (Hc & Ht).
  unfold returned in *. destruct (xmain s) as [| | |r] eqn:Em; try discriminate.
  destruct e; cbn [xstep]; rewrite ?Em;
    try (repeat split; cbn [xmain sent conn_closed xhelper]; rewrite ?Em; auto; fail).
  - destruct (xhelper s) eqn:Eh; [|destruct (encode H request); rewrite ?Ht|];
      repeat split; cbn [xmain sent conn_closed xhelper]; rewrite ?Em, ?Eh; auto.
  - destruct (xhelper s) eqn:Eh; [|destruct (derived_done s)|];
      repeat split; cbn [xmain sent conn_closed xhelper]; rewrite ?Em, ?Eh; auto.
Qed.

(* after the caller's context has ended the call returns within two internal
   steps (the helper closes the socket; the pending read fails), whatever
   datagrams arrive and whatever the error budget is *)
Theorem returns_after_ctx_done s : XInv s -> ctx_done s = true ->
  (exists c, xmain s = M_reading c) -> xhelper s = Hp_running ->
  xmain (step (step s XHelper) XStep) = M_returned XCtxErr.
Proof.
  intros (I1 & I2 & I3 & I4 & I5) Hc [c Hm] Hh. specialize (I4 Hc).
  cbn [xstep]. rewrite Hh, I4. cbn [xstep xmain conn_closed derived_done]. rewrite Hm.
  cbn [do_return xmain]. reflexivity.
Qed.

(* ... and a datagram arriving in between either is not read at all (socket
   closed) or makes the call return as well: garbage cannot starve cancellation *)
Theorem flood_cannot_starve_cancellation s d : XInv s -> derived_done s = true ->
  conn_closed s = true -> (exists c, xmain s = M_reading c) ->
  step s (XDatagram d) = s /\ returned (step s XStep) = true.
Proof.
  intros _ Hd Hc [c Hm]. cbn [xstep]. rewrite Hm, Hc. split; [reflexivity|]. reflexivity.
Qed.

Theorem dial_failure_maps_to_ctx s : xmain s = M_dialled ->
  xmain (step s XDialFail) = M_returned (if ctx_done s then XCtxErr else XNetErr).
Proof. intros Hm. cbn [xstep]. rewrite Hm. reflexivity. Qed.
End S.
