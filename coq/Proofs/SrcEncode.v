(* Proofs/SrcEncode.v — Encode of packet.go as translated (Gen/Src.v) produces the
   authenticators of Spec/C03.v (H = MD5) over what MarshalBinary returns, for every packet. *)
From Coq Require Import String.
From Radius Require Import Base.Bytes Base.Res Base.Guard Base.GoLite Gen.Src Crypto.MD5 Proofs.SrcBase Proofs.SrcCtx Model.SrcRun
  Model.Attrs Spec.C09 Spec.C01 Spec.C03 Proofs.SrcDefs Proofs.SrcMarshal.
Open Scope list_scope.
Open Scope nat_scope.

(* ---- Encode ---- *)
Definition encode_of_wire (c : Z) (auth sec w : bytes) : val :=
  if zmem c rfc_verbatim_codes then VTup [VBytes w; VNil]
  else if zmem c rfc_reply_codes then VTup [VBytes (spec_put_auth w (md5 (covered w auth sec))); VNil]
  else if zmem c rfc_hashed_request_codes then VTup [VBytes (spec_put_auth w (md5 (covered w zero16 sec))); VNil]
  else VTup [VNil; VErr].

Lemma put_auth_copy w h : 20 <= length w -> length h = 16 ->
  copy_into w 4 20 h = Some (spec_put_auth w h).
Proof.
  intros Hw Hh. unfold copy_into, spec_put_auth.
  replace ((0 <=? 4)%Z && (4 <=? 20)%Z && (20 <=? Z.of_nat (length w))%Z) with true by lia.
  change (Z.to_nat 20 - Z.to_nat 4) with 16. change (Z.to_nat 4) with 4. rewrite Hh. cbn [Nat.min Nat.add].
  rewrite (@firstn_all2 _ 16 h) by lia. reflexivity.
Qed.

Theorem src_Encode_of_wire cx n c i auth sec secret vl w :
  cx "Packet.MarshalBinary"%string [vpacket c i auth secret vl] = Some (VTup [VBytes w; VNil]) ->
  20 <= length w -> length auth = 16 -> as_bytes secret = Some sec ->
  run cx n (fn src_Packet_Encode) [vpacket c i auth secret vl] = Some (Some (encode_of_wire c auth sec w)).
Proof.
  intros Hm Hw Ha Hs. unfold run, vpacket in *. go. rewrite Hm. go.
  unfold encode_of_wire, rfc_verbatim_codes, rfc_reply_codes, rfc_hashed_request_codes. cbn [zmem].
  destruct (c =? 1)%Z eqn:E1; go; [reflexivity|].
  destruct (c =? 12)%Z eqn:E12; go; [reflexivity|]. cbn [orb].
  assert (Hsec : forall x, match as_bytes secret with Some l2 => x l2 | None => @None val end = x sec) by (intros; rewrite Hs; reflexivity).
  Ltac enc_case K Hw Ha Hs :=
    let E := fresh "E" in
    destruct (_ =? K)%Z eqn:E in |- *;
    [ apply Z.eqb_eq in E; subst; go; rewrite ?Hs; go;
      rewrite put_auth_copy by (try apply md5_length; lia); go;
      unfold covered, zero16; rewrite ?Nat.sub_0_r; golist;
      rewrite <- ?app_assoc; reflexivity
    | ].
  enc_case 2%Z Hw Ha Hs. enc_case 3%Z Hw Ha Hs. enc_case 4%Z Hw Ha Hs. enc_case 5%Z Hw Ha Hs.
  enc_case 11%Z Hw Ha Hs. enc_case 40%Z Hw Ha Hs. enc_case 41%Z Hw Ha Hs. enc_case 42%Z Hw Ha Hs.
  enc_case 43%Z Hw Ha Hs. enc_case 44%Z Hw Ha Hs. enc_case 45%Z Hw Ha Hs.
  go. reflexivity.
Qed.

Theorem src_Encode_of_error cx n p :
  cx "Packet.MarshalBinary"%string [p] = Some (VTup [VNil; VErr]) ->
  run cx n (fn src_Packet_Encode) [p] = Some (Some (VTup [VNil; VErr])).
Proof. intros Hm. unfold run. go. rewrite Hm. go. reflexivity. Qed.


Definition encode_result (c i : Z) (auth sec : bytes) (vl : list val) : val :=
  if forallb v_fits vl then
    if (4096 <? 20 + Z.of_nat (length (vwire vl)))%Z then VTup [VNil; VErr]
    else encode_of_wire c auth sec
           (Z.to_N (wrap 8 false c) :: Z.to_N i :: be_enc 2 (N.of_nat (20 + length (vwire vl))) ++ auth ++ vwire vl)
  else VTup [VNil; VErr].

Theorem program_Encode fuel c i auth secret sec vl :
  Forall is_avp vl -> length vl < fuel -> (0 <= i < 256)%Z -> length auth = 16 -> as_bytes secret = Some sec ->
  src_run "Packet.Encode" fuel [vpacket c i auth secret vl] = Some (Some (encode_result c i auth sec vl)).
Proof.
  intros Hwf Hn Hi Ha Hs. unfold src_run. cbn [lookup_fn].
  assert (Hm : src_ctx fuel "Packet.MarshalBinary"%string [vpacket c i auth secret vl] = Some (marshal_result c i auth vl)).
  { unfold src_ctx, src_depth.
    rewrite (ctx_of_call fuel 5 "Packet.MarshalBinary" (fn src_Packet_MarshalBinary)) by reflexivity.
    rewrite src_MarshalBinary_spec; try assumption; [reflexivity | apply src_ctx_calls_enclen | apply src_ctx_calls_encodeto]. }
  unfold encode_result. unfold marshal_result in Hm.
  destruct (forallb v_fits vl).
  - destruct (4096 <? 20 + Z.of_nat (length (vwire vl)))%Z.
    + apply src_Encode_of_error. exact Hm.
    + apply src_Encode_of_wire; try assumption. cbn [length]. rewrite !app_length, be_enc_length. lia.
  - apply src_Encode_of_error. exact Hm.
Qed.

(* Encode, in the terms of Spec/C03.v *)
Theorem encode_result_spec c i auth sec vl : Forall is_avp vl -> (0 <= i)%Z ->
  encode_result c i auth sec vl =
  match spec_encode md5 c (Z.to_N i) auth sec (abs_attrs vl) with
  | Ok w => VTup [VBytes w; VNil]
  | _ => VTup [VNil; VErr]
  end.
Proof.
  intros Hwf Hi. unfold encode_result, spec_encode, spec_marshal. rewrite (fits_abs vl Hwf), (vwire_abs vl Hwf).
  destruct (forallb spec_value_fits (abs_attrs vl)); [|reflexivity].
  replace (4096 <? 20 + Z.of_nat (length (spec_wire (abs_attrs vl))))%Z with (4096 <? 20 + length (spec_wire (abs_attrs vl))) by lia.
  destruct (4096 <? 20 + length (spec_wire (abs_attrs vl))); [reflexivity|].
  unfold encode_of_wire, wrap. change (2 ^ 8)%Z with 256%Z.
  destruct (zmem c rfc_verbatim_codes); [reflexivity|].
  destruct (zmem c rfc_reply_codes); [reflexivity|].
  destruct (zmem c rfc_hashed_request_codes); reflexivity.
Qed.
