(* Proofs/SrcAttrs.v — attributes.go as translated (Gen/Src.v): the loops of
   Lookup/Get/Add/Del/Set compute the ordered-multimap operations, for every
   list, key and value, given enough fuel (one unit per element). *)
From Coq Require Import String.
From Radius Require Import Base.Bytes Base.Res Base.GoLite Gen.Src Crypto.MD5 Proofs.SrcBase Proofs.SrcCtx Model.SrcRun
  Model.Attrs Spec.C09 Proofs.SrcDefs.
Open Scope list_scope.
Open Scope nat_scope.

(* ---- Lookup ---- *)
Definition lookup_result (k : Z) (vl : list val) : val :=
  match find (vkey k) vl with
  | Some v => VTup [vattr v; VBool true]
  | None => VTup [VNil; VBool false]
  end.




Section Lookup.
Variable cx : ctx.
Variables (k : Z) (vl : list val).
Hypothesis Hwf : Forall is_avp vl.

Definition lookup_for : stmt :=
  match f_body (fn src_Attributes_Lookup) with
  | SSeq (SSeq _ (SSeq _ f)) _ => f
  | _ => SSkip
  end.

Lemma lookup_loop n m : forall i a,
  i <= length vl -> length vl - i < m ->
  exists a',
  loop (fun e => eval cx e (for_cond lookup_for)) (exec cx n (for_body lookup_for)) (exec cx n (for_post lookup_for)) m
     [VList vl; VInt k; VList vl; VInt (Z.of_nat i); a] =
  match find (vkey k) (skipn i vl) with
  | Some v => ORet (VTup [vattr v; VBool true])
  | None => ONorm [VList vl; VInt k; VList vl; VInt (Z.of_nat (length vl)); a']
  end.
Proof.
  induction m as [|m IH]; intros i a Hi Hm; [lia|].
  loop_step L. cbn [lookup_for for_cond for_body for_post fn src_Attributes_Lookup f_body]. go.
  destruct (Nat.eq_dec i (length vl)) as [->|Hne].
  - golia. rewrite skipn_all. cbn [find]. exists a. reflexivity.
  - golia. go.
    destruct (nth_error vl i) as [x|] eqn:Ex; [|apply nth_error_None in Ex; lia].
    rewrite (nth_error_nth_skipn _ _ _ Ex). cbn [find].
    assert (Hx : is_avp x) by (rewrite Forall_forall in Hwf; apply Hwf; eapply nth_error_In; eauto).
    destruct Hx as [t bv Hbv]. go. cbn [vkey vavp].
    destruct (t =? k)%Z eqn:Ek; go.
    + exists VNil; reflexivity.
    + replace (Z.of_nat i + 1)%Z with (Z.of_nat (S i)) by lia. subst L.
      apply IH; lia.
Qed.
End Lookup.

Lemma lookup_for_is_for : match lookup_for with SFor _ _ _ => True | _ => False end.
Proof. exact I. Qed.


Theorem src_Lookup_spec cx n k vl : Forall is_avp vl -> length vl < n ->
  run cx n (fn src_Attributes_Lookup) [VList vl; VInt k] = Some (Some (lookup_result k vl)).
Proof.
  intros Hwf Hn. unfold run. cbn [fn src_Attributes_Lookup f_body f_params f_locals].
  fold_for lookup_for. remember lookup_for as F eqn:HF. go. subst F.
  rewrite exec_for by exact lookup_for_is_for.
  destruct (lookup_loop cx k vl Hwf n n 0 VNil ltac:(lia) ltac:(lia)) as [a' H].
  change (Z.of_nat 0) with 0%Z in H. rewrite H. cbn [skipn]. unfold lookup_result.
  destruct (find (vkey k) vl); go; reflexivity.
Qed.

(* ---- Add ---- *)
Theorem src_Add_spec cx n k v vl :
  run cx n (fn src_Attributes_Add) [VList vl; VInt k; v] = Some (Some (VTup [VList (vl ++ [vavp k v])])).
Proof. unfold run. go. reflexivity. Qed.

Theorem src_Add_nil_spec cx n k v :
  run cx n (fn src_Attributes_Add) [VNil; VInt k; v] = Some (Some (VTup [VList [vavp k v]])).
Proof. unfold run. go. reflexivity. Qed.

(* ---- Del ---- *)
Definition vnot_key (k : Z) (v : val) : bool := negb (vkey k v).

Section Del.
Variable cx : ctx.
Variable k : Z.

Definition del_for : stmt :=
  match f_body (fn src_Attributes_Del) with
  | SSeq (SSeq _ f) _ => f
  | _ => SSkip
  end.

Lemma del_loop n m : forall cur i,
  Forall is_avp cur -> i <= length cur -> length cur - i < m ->
  exists j,
  loop (fun e => eval cx e (for_cond del_for)) (exec cx n (for_body del_for)) (exec cx n (for_post del_for)) m
     [VList cur; VInt k; VInt (Z.of_nat i)] =
  ONorm [VList (firstn i cur ++ filter (vnot_key k) (skipn i cur)); VInt k; VInt j].
Proof.
  induction m as [|m IH]; intros cur i Hwf Hi Hm; [lia|].
  loop_step L. cbn [del_for for_cond for_body for_post fn src_Attributes_Del f_body]. go.
  destruct (Nat.eq_dec i (length cur)) as [->|Hne].
  - golia. rewrite skipn_all, firstn_all. cbn [filter]. rewrite app_nil_r. eexists. reflexivity.
  - golia. go.
    destruct (nth_error cur i) as [x|] eqn:Ex; [|apply nth_error_None in Ex; lia].
    rewrite (nth_error_nth_skipn _ _ _ Ex). cbn [filter].
    assert (Hx : is_avp x) by (rewrite Forall_forall in Hwf; apply Hwf; eapply nth_error_In; eauto).
    destruct Hx as [t bv Hbv]. go. unfold vnot_key at 1. cbn [vkey vavp].
    destruct (t =? k)%Z eqn:Ek; go.
    + (* delete in place: the index stays, the list shrinks *)
      replace (Z.to_nat (Z.of_nat i + 1)) with (S i) by lia. rewrite Nat.sub_0_r.
      rewrite (@firstn_all2 _ (length cur - S i)) by golen.
      set (cur' := firstn i cur ++ skipn (S i) cur).
      assert (Hl : length cur' = length cur - 1) by (unfold cur'; golen).
      subst L. destruct (IH cur' i) as [j Hj]; try lia.
      { unfold cur'. apply Forall_app. split; [apply Forall_firstn|apply Forall_skipn]; exact Hwf. }
      exists j. rewrite Hj. unfold cur'.
      rewrite firstn_app_exact by golen. rewrite skipn_app_exact by golen. reflexivity.
    + replace (Z.of_nat i + 1)%Z with (Z.of_nat (S i)) by lia.
      subst L. destruct (IH cur (S i)) as [j Hj]; try lia; [exact Hwf|].
      exists j. rewrite Hj.
      rewrite (firstn_S_nth_error _ _ _ Ex). rewrite <- app_assoc. reflexivity.
Qed.
End Del.

Definition del_for_is_for : match del_for with SFor _ _ _ => True | _ => False end := I.

Theorem src_Del_spec cx n k vl : Forall is_avp vl -> length vl < n ->
  run cx n (fn src_Attributes_Del) [VList vl; VInt k] = Some (Some (VTup [VList (filter (vnot_key k) vl)])).
Proof.
  intros Hwf Hn. unfold run. cbn [fn src_Attributes_Del f_body f_params f_locals].
  fold_for del_for. remember del_for as F eqn:HF. go. subst F.
  rewrite exec_for by exact del_for_is_for.
  destruct (del_loop cx k n n vl 0 Hwf ltac:(lia) ltac:(lia)) as [j H].
  change (Z.of_nat 0) with 0%Z in H. rewrite H. go. reflexivity.
Qed.


(* ---- Set ---- *)
Fixpoint vset_tail (k : Z) (v : val) (found : bool) (l : list val) : list val * bool :=
  match l with
  | [] => ([], found)
  | x :: r =>
    if vkey k x then
      if found then vset_tail k v true r
      else (vavp k v :: fst (vset_tail k v true r), snd (vset_tail k v true r))
    else (x :: fst (vset_tail k v found r), snd (vset_tail k v found r))
  end.
Definition vset_list (k : Z) (v : val) (l : list val) : list val :=
  let r := vset_tail k v false l in if snd r then fst r else fst r ++ [vavp k v].

Section SetLoop.
Variable cx : ctx.
Variables (k : Z) (v : val).

Definition set_for : stmt :=
  match f_body (fn src_Attributes_Set) with
  | SSeq (SSeq _ (SSeq (SSeq _ f) _)) _ => f
  | _ => SSkip
  end.

Lemma set_loop n m : forall cur i found,
  Forall is_avp cur -> is_slice v -> i <= length cur -> length cur - i < m ->
  exists j,
  loop (fun e => eval cx e (for_cond set_for)) (exec cx n (for_body set_for)) (exec cx n (for_post set_for)) m
     [VList cur; VInt k; v; VBool found; VInt (Z.of_nat i)] =
  ONorm [VList (firstn i cur ++ fst (vset_tail k v found (skipn i cur))); VInt k; v;
         VBool (snd (vset_tail k v found (skipn i cur))); VInt j].
Proof.
  induction m as [|m IH]; intros cur i found Hwf Hv Hi Hm; [lia|].
  loop_step L. cbn [set_for for_cond for_body for_post fn src_Attributes_Set f_body]. go.
  destruct (Nat.eq_dec i (length cur)) as [->|Hne].
  - golia. rewrite skipn_all, firstn_all. cbn [vset_tail fst snd]. rewrite app_nil_r. eexists. reflexivity.
  - golia. go.
    destruct (nth_error cur i) as [x|] eqn:Ex; [|apply nth_error_None in Ex; lia].
    rewrite (nth_error_nth_skipn _ _ _ Ex). cbn [vset_tail].
    assert (Hx : is_avp x) by (rewrite Forall_forall in Hwf; apply Hwf; eapply nth_error_In; eauto).
    destruct Hx as [t bv Hbv]. go. cbn [vkey vavp].
    destruct (t =? k)%Z eqn:Ek; go.
    + destruct found; go.
      * replace (Z.to_nat (Z.of_nat i + 1)) with (S i) by lia. rewrite Nat.sub_0_r.
        rewrite (@firstn_all2 _ (length cur - S i)) by golen.
        set (cur' := firstn i cur ++ skipn (S i) cur).
        assert (Hl : length cur' = length cur - 1) by (unfold cur'; golen).
        subst L. destruct (IH cur' i true) as [j Hj]; try lia; try assumption.
        { unfold cur'. apply Forall_app. split; [apply Forall_firstn|apply Forall_skipn]; exact Hwf. }
        exists j. rewrite Hj. unfold cur'.
        rewrite firstn_app_exact by golen. rewrite skipn_app_exact by golen. reflexivity.
      * replace (Z.of_nat i + 1)%Z with (Z.of_nat (S i)) by lia.
        set (cur' := set_nth i (VRec [VInt k; v]) cur).
        assert (Hl : length cur' = length cur) by (unfold cur'; apply set_nth_length; lia).
        subst L. destruct (IH cur' (S i) true) as [j Hj]; try lia; try assumption.
        { unfold cur', set_nth. apply Forall_app. split; [apply Forall_firstn; exact Hwf|].
          constructor; [apply (is_avp_intro k v Hv)|apply Forall_skipn; exact Hwf]. }
        exists j. rewrite Hj. unfold cur', set_nth.
        replace (firstn (S i) (firstn i cur ++ VRec [VInt k; v] :: skipn (S i) cur))
          with (firstn i cur ++ [vavp k v]).
        2:{ rewrite firstn_app. rewrite firstn_firstn. autorewrite with golen.
            replace (Nat.min (S i) i) with i by lia. replace (S i - Nat.min i (length cur)) with 1 by lia.
            reflexivity. }
        replace (skipn (S i) (firstn i cur ++ VRec [VInt k; v] :: skipn (S i) cur)) with (skipn (S i) cur).
        2:{ rewrite skipn_app. rewrite (@skipn_all2 _ (S i) (firstn i cur)) by golen. autorewrite with golen.
            replace (S i - Nat.min i (length cur)) with 1 by lia. reflexivity. }
        rewrite <- app_assoc. reflexivity.
    + replace (Z.of_nat i + 1)%Z with (Z.of_nat (S i)) by lia.
      subst L. destruct (IH cur (S i) found) as [j Hj]; try lia; try assumption.
      exists j. rewrite Hj.
      rewrite (firstn_S_nth_error _ _ _ Ex). rewrite <- app_assoc. reflexivity.
Qed.
End SetLoop.

Definition set_for_is_for : match set_for with SFor _ _ _ => True | _ => False end := I.

(* what Set needs of its context: the call of Add *)
Definition calls_add (cx : ctx) : Prop :=
  forall l k v, cx "Attributes.Add"%string [VList l; VInt k; v] = Some (VTup [VList (l ++ [vavp k v])]).

Theorem src_Set_spec cx n k v vl : calls_add cx -> Forall is_avp vl -> is_slice v -> length vl < n ->
  run cx n (fn src_Attributes_Set) [VList vl; VInt k; v] = Some (Some (VTup [VList (vset_list k v vl)])).
Proof.
  intros Hadd Hwf Hv Hn. unfold run. cbn [fn src_Attributes_Set f_body f_params f_locals].
  fold_for set_for. remember set_for as F eqn:HF. go. subst F.
  rewrite exec_for by exact set_for_is_for.
  destruct (set_loop cx k v n n vl 0 false Hwf Hv ltac:(lia) ltac:(lia)) as [j H].
  change (Z.of_nat 0) with 0%Z in H. rewrite H. cbn [skipn firstn app]. unfold vset_list.
  destruct (snd (vset_tail k v false vl)); go; [reflexivity|].
  rewrite Hadd. go. reflexivity.
Qed.


(* ---- the value-level results are the ordered-multimap operations of Spec/C09.v ---- *)

Lemma abs_add vl k v : abs_attrs (vl ++ [vavp k v]) = spec_add k (bytes_of v) (abs_attrs vl).
Proof. unfold abs_attrs, spec_add. rewrite map_app. reflexivity. Qed.

Lemma abs_del vl k : Forall is_avp vl -> abs_attrs (filter (vnot_key k) vl) = spec_del k (abs_attrs vl).
Proof.
  induction 1 as [|x l Hx Hl IH]; [reflexivity|].
  cbn [filter abs_attrs map]. unfold spec_del. cbn [filter]. unfold vnot_key at 1, not_key at 1.
  rewrite (vkey_abs k x Hx). unfold is_key.
  destruct (atype (abs_avp x) =? k)%Z; cbn [negb map]; [exact IH|]. f_equal. exact IH.
Qed.

Lemma vset_tail_true k v l : vset_tail k v true l = (filter (vnot_key k) l, true).
Proof.
  induction l as [|x l IH]; [reflexivity|]. cbn [vset_tail filter]. unfold vnot_key at 1.
  destruct (vkey k x); cbn [negb]; rewrite IH; reflexivity.
Qed.

Lemma abs_set vl k v : Forall is_avp vl ->
  abs_attrs (vset_list k v vl) = spec_set k (bytes_of v) (abs_attrs vl).
Proof.
  unfold vset_list. induction 1 as [|x l Hx Hl IH]; [reflexivity|].
  cbn [vset_tail abs_attrs map spec_set]. rewrite (vkey_abs k x Hx).
  destruct (is_key k (abs_avp x)).
  - rewrite vset_tail_true. cbn [fst snd]. cbn [abs_attrs map]. f_equal. apply abs_del. exact Hl.
  - cbn [fst snd]. destruct (snd (vset_tail k v false l)); cbn [abs_attrs map app] in *; f_equal; exact IH.
Qed.

Lemma abs_lookup vl k : Forall is_avp vl ->
  match spec_lookup k (abs_attrs vl) with
  | Some x => exists bv, lookup_result k vl = VTup [bv; VBool true] /\ is_slice bv /\ bytes_of bv = x
  | None => lookup_result k vl = VTup [VNil; VBool false]
  end.
Proof.
  unfold spec_lookup, lookup_result. induction 1 as [|x l Hx Hl IH]; [reflexivity|].
  cbn [find abs_attrs map]. rewrite (vkey_abs k x Hx).
  destruct (is_key k (abs_avp x)) eqn:E; [|exact IH].
  destruct Hx as [t bv Hbv]. exists bv. split; [reflexivity|]. split; [exact Hbv|]. reflexivity.
Qed.

(* ---- Get: a call of Lookup ---- *)
Definition calls_lookup (cx : ctx) (bound : nat) : Prop :=
  forall vl k, Forall is_avp vl -> length vl < bound ->
  cx "Attributes.Lookup"%string [VList vl; VInt k] = Some (lookup_result k vl).

Theorem src_Get_spec cx n k vl : calls_lookup cx n -> Forall is_avp vl -> length vl < n ->
  run cx n (fn src_Attributes_Get) [VList vl; VInt k] =
  Some (Some (match find (vkey k) vl with Some v => vattr v | None => VNil end)).
Proof.
  intros Hc Hwf Hn. unfold run. go. rewrite Hc by assumption. unfold lookup_result.
  destruct (find (vkey k) vl); go; reflexivity.
Qed.

(* ---- the same statements for the whole translated program (calls resolved by interpretation) ---- *)
Lemma src_ctx_calls_add fuel : calls_add (src_ctx fuel).
Proof.
  intros l k v. unfold src_ctx, src_depth.
  rewrite (ctx_of_call fuel 5 "Attributes.Add" (fn src_Attributes_Add)) by reflexivity.
  rewrite src_Add_spec. reflexivity.
Qed.

Lemma src_ctx_calls_lookup fuel : calls_lookup (src_ctx fuel) fuel.
Proof.
  intros vl k Hwf Hn. unfold src_ctx, src_depth.
  rewrite (ctx_of_call fuel 5 "Attributes.Lookup" (fn src_Attributes_Lookup)) by reflexivity.
  rewrite src_Lookup_spec by assumption. reflexivity.
Qed.

Theorem program_Lookup fuel k vl : Forall is_avp vl -> length vl < fuel ->
  src_run "Attributes.Lookup" fuel [VList vl; VInt k] = Some (Some (lookup_result k vl)).
Proof. intros. unfold src_run. cbn [lookup_fn]. apply src_Lookup_spec; assumption. Qed.

Theorem program_Get fuel k vl : Forall is_avp vl -> length vl < fuel ->
  src_run "Attributes.Get" fuel [VList vl; VInt k] =
  Some (Some (match find (vkey k) vl with Some v => vattr v | None => VNil end)).
Proof. intros. apply src_Get_spec; try assumption. apply src_ctx_calls_lookup. Qed.

Theorem program_Add fuel k v vl :
  src_run "Attributes.Add" fuel [VList vl; VInt k; v] = Some (Some (VTup [VList (vl ++ [vavp k v])])).
Proof. apply src_Add_spec. Qed.

Theorem program_Del fuel k vl : Forall is_avp vl -> length vl < fuel ->
  src_run "Attributes.Del" fuel [VList vl; VInt k] = Some (Some (VTup [VList (filter (vnot_key k) vl)])).
Proof. intros. apply src_Del_spec; assumption. Qed.

Theorem program_Set fuel k v vl : Forall is_avp vl -> is_slice v -> length vl < fuel ->
  src_run "Attributes.Set" fuel [VList vl; VInt k; v] = Some (Some (VTup [VList (vset_list k v vl)])).
Proof. intros. apply src_Set_spec; try assumption. apply src_ctx_calls_add. Qed.
