(* Proofs/PacketWire.v — Parse and MarshalBinary are mutual inverses (C01). *)
From Radius Require Import Base.Bytes Base.Guard Base.Res Gen.Consts Model.Attrs Model.Packet
  Spec.C09 Spec.C01 Proofs.Guards Proofs.AttrsWire.
From Coq Require Import ZifyBool ZifyNat ZifyN.
Open Scope nat_scope.

Definition hdr_len (l1 l2 : N) : nat := N.to_nat (be_dec [l1; l2]).

Lemma parse_unfold b s :
  parse b s =
  if length b <? 20 then Err E_short else
  match b with
  | c :: i :: l1 :: l2 :: rest =>
    let len := hdr_len l1 l2 in
    if (len <? 20) || (4096 <? len) || (length b <? len) then Err E_badlen
    else match parse_attrs (skipn 20 (firstn len b)) with
         | Ok at_ => Ok (mkpacket (Z.of_N c) i (firstn 16 rest) s at_)
         | Err e => Err e | Panic => Panic | OutOfFuel => OutOfFuel
         end
  | _ => Panic
  end.
Proof.
  unfold parse. rewrite g_Parse_0. unfold zlen.
  destruct (Nat.ltb_spec (length b) 20) as [Hs|Hs].
  - replace (Z.of_nat (length b) <? 20)%Z with true by lia. reflexivity.
  - replace (Z.of_nat (length b) <? 20)%Z with false by lia.
    destruct b as [|c [|i [|l1 [|l2 rest]]]]; try reflexivity.
    rewrite g_Parse_1, g_Parse_2. cbv zeta. unfold hdr_len.
    set (L := be_dec [l1; l2]).
    replace (Z.to_nat (Z.of_N L)) with (N.to_nat L) by lia.
    destruct ((Z.of_N L <? 20)%Z || (Z.of_N L >? 4096)%Z
              || (Z.of_nat (length (c :: i :: l1 :: l2 :: rest)) <? Z.of_N L)%Z) eqn:E.
    + replace ((N.to_nat L <? 20) || (4096 <? N.to_nat L) || (length (c :: i :: l1 :: l2 :: rest) <? N.to_nat L))
        with true by lia. reflexivity.
    + replace ((N.to_nat L <? 20) || (4096 <? N.to_nat L) || (length (c :: i :: l1 :: l2 :: rest) <? N.to_nat L))
        with false by lia.
      replace ((N.to_nat L <? 20) || (length (c :: i :: l1 :: l2 :: rest) <? N.to_nat L)) with false by lia.
      reflexivity.
Qed.

Lemma length_field_cons c i l1 l2 rest : length_field (c :: i :: l1 :: l2 :: rest) = hdr_len l1 l2.
Proof. reflexivity. Qed.

Theorem parse_no_panic b s : parse b s <> Panic /\ parse b s <> OutOfFuel.
Proof.
  rewrite parse_unfold. destruct (Nat.ltb_spec (length b) 20) as [Hs|Hs]; [split; discriminate|].
  destruct b as [|c [|i [|l1 [|l2 rest]]]]; cbn [length] in Hs; try lia.
  cbv zeta. destruct (_ || _ || _); [split; discriminate|].
  destruct (parse_attrs_no_panic (skipn 20 (firstn (hdr_len l1 l2) (c :: i :: l1 :: l2 :: rest)))) as [H1 H2].
  destruct (parse_attrs _); split; try discriminate; contradiction.
Qed.

(* acceptance: exactly the condition of the statement *)
Theorem parse_accepts_iff b s : (exists p, parse b s = Ok p) <-> accepts b.
Proof.
  rewrite parse_unfold. unfold accepts, wf_tlvs.
  destruct (Nat.ltb_spec (length b) 20) as [Hs|Hs].
  - split; [intros [p H]; discriminate|intros [H _]; lia].
  - destruct b as [|c [|i [|l1 [|l2 rest]]]]; cbn [length] in Hs; try lia.
    rewrite length_field_cons. cbv zeta. set (n := hdr_len l1 l2).
    rewrite firstn_skipn_comm.
    destruct ((n <? 20) || (4096 <? n) || (length (c :: i :: l1 :: l2 :: rest) <? n)) eqn:E.
    + split; [intros [p H]; discriminate|]. intros (_ & H1 & H2 & _). lia.
    + replace (20 + (n - 20)) with n by lia.
      destruct (parse_attrs (skipn 20 (firstn n (c :: i :: l1 :: l2 :: rest)))) as [l| | |] eqn:Ep.
      * split; [|eauto]. intros _. apply parse_attrs_iff in Ep.
        repeat split; try lia; eauto.
      * split; [intros [p H]; discriminate|]. intros (_ & _ & _ & l & Hl).
        apply parse_attrs_iff in Hl. congruence.
      * split; [intros [p H]; discriminate|]. intros (_ & _ & _ & l & Hl).
        apply parse_attrs_iff in Hl. congruence.
      * split; [intros [p H]; discriminate|]. intros (_ & _ & _ & l & Hl).
        apply parse_attrs_iff in Hl. congruence.
Qed.

(* ---- MarshalBinary ---- *)
Lemma marshal_spec p :
  marshal p =
  if forallb value_fits (pattrs p) then
    let w := spec_wire (pattrs p) in
    if 4096 <? 20 + length w then Err E_pkt_big
    else Ok (zbyte (code p) :: ident p :: be_enc 2 (N.of_nat (20 + length w)) ++ auth p ++ w)
  else Err E_attr_big.
Proof.
  unfold marshal. rewrite enc_len_spec.
  destruct (forallb value_fits (pattrs p)) eqn:Hf; [|reflexivity].
  cbv zeta. rewrite g_Marshal_0.
  destruct (Nat.ltb_spec 4096 (20 + length (spec_wire (pattrs p)))) as [Hb|Hb].
  - replace (Z.of_nat (20 + length (spec_wire (pattrs p))) >? 4096)%Z with true by lia. reflexivity.
  - replace (Z.of_nat (20 + length (spec_wire (pattrs p))) >? 4096)%Z with false by lia.
    rewrite (encode_to_exact _ (length (spec_wire (pattrs p)))).
    + replace (Z.to_N (Z.of_nat (20 + length (spec_wire (pattrs p))) mod 65536))
        with (N.of_nat (20 + length (spec_wire (pattrs p)))) by lia. reflexivity.
    + rewrite enc_len_spec, Hf. reflexivity.
    + apply repeat_length.
Qed.

Theorem marshal_no_panic p : marshal p <> Panic /\ marshal p <> OutOfFuel.
Proof.
  rewrite marshal_spec. destruct (forallb _ _); cbv zeta; [destruct (_ <? _)|]; split; discriminate.
Qed.

Theorem marshal_size p w : length (auth p) = 16 -> marshal p = Ok w ->
  length w = 20 + length (spec_wire (pattrs p)) /\ length_field w = length w /\ length w <= 4096.
Proof.
  intros Ha. rewrite marshal_spec. destruct (forallb _ _); [|discriminate]. cbv zeta.
  destruct (Nat.ltb_spec 4096 (20 + length (spec_wire (pattrs p)))) as [Hb|Hb]; [discriminate|].
  intros H; apply Ok_inj in H; subst w.
  assert (Hl : length (zbyte (code p) :: ident p :: be_enc 2 (N.of_nat (20 + length (spec_wire (pattrs p))))
                ++ auth p ++ spec_wire (pattrs p)) = 20 + length (spec_wire (pattrs p))).
  { cbn [length]. rewrite !app_length, be_enc_length, Ha. lia. }
  split; [exact Hl|]. split; [|lia]. rewrite Hl.
  unfold length_field. cbn [skipn].
  replace (firstn 2 (be_enc 2 (N.of_nat (20 + length (spec_wire (pattrs p)))) ++ auth p ++ spec_wire (pattrs p)))
    with (be_enc 2 (N.of_nat (20 + length (spec_wire (pattrs p))))).
  - rewrite be_dec_enc_small; [lia|]. change (256 ^ N.of_nat 2)%N with 65536%N. lia.
  - rewrite firstn_app, be_enc_length. replace (2 - 2) with 0 by lia.
    rewrite firstn_O, app_nil_r. rewrite firstn_all2 by (rewrite be_enc_length; lia). reflexivity.
Qed.

Theorem marshal_refuses p :
  (exists a, In a (pattrs p) /\ in_range a = true /\ 253 < length (aval a)) \/
  4096 < 20 + length (spec_wire (pattrs p)) ->
  exists e, marshal p = Err e.
Proof.
  intros H. rewrite marshal_spec. destruct (forallb value_fits (pattrs p)) eqn:Hf; [|eauto].
  cbv zeta. destruct H as [(a & Hin & Hr & Hl)|H].
  - rewrite forallb_forall in Hf. specialize (Hf a Hin). unfold value_fits in Hf. rewrite Hr in Hf.
    cbn [negb orb] in Hf. apply Nat.leb_le in Hf. lia.
  - destruct (Nat.ltb_spec 4096 (20 + length (spec_wire (pattrs p)))); [eauto|lia].
Qed.

Theorem marshal_accepts p :
  forallb value_fits (pattrs p) = true -> 20 + length (spec_wire (pattrs p)) <= 4096 ->
  exists w, marshal p = Ok w.
Proof.
  intros Hf Hb. rewrite marshal_spec, Hf. cbv zeta.
  destruct (Nat.ltb_spec 4096 (20 + length (spec_wire (pattrs p)))); [lia|eauto].
Qed.

(* ---- parse after marshal ---- *)
Definition wire_view (p : packet) (s : bytes) : packet :=
  mkpacket (code p) (ident p) (auth p) s (filter in_range (pattrs p)).

Lemma be_enc_2_cases n : exists h l, be_enc 2 n = [h; l].
Proof. cbn [be_enc app]. eauto. Qed.

Theorem marshal_parse p s w :
  (0 <= code p <= 255)%Z -> length (auth p) = 16 -> marshal p = Ok w ->
  parse w s = Ok (wire_view p s).
Proof.
  intros Hc Ha Hm. destruct (marshal_size p w Ha Hm) as (Hlen & Hlf & Hmax).
  rewrite marshal_spec in Hm. destruct (forallb value_fits (pattrs p)) eqn:Hf; [|discriminate].
  cbv zeta in Hm. destruct (Nat.ltb_spec 4096 (20 + length (spec_wire (pattrs p)))) as [Hb|Hb]; [discriminate|].
  apply Ok_inj in Hm. rename Hm into Hw.
  destruct (be_enc_2_cases (N.of_nat (20 + length (spec_wire (pattrs p))))) as (h & l & Hhl).
  rewrite Hhl in Hw. cbn [app] in Hw.
  rewrite parse_unfold. rewrite <- Hw in Hlen, Hlf |- *.
  replace (length (zbyte (code p) :: ident p :: h :: l :: auth p ++ spec_wire (pattrs p)) <? 20) with false by lia.
  rewrite length_field_cons in Hlf. cbv zeta. rewrite Hlf.
  match goal with |- context [if ?c then _ else _] => replace c with false by lia end.
  rewrite firstn_all2 by lia.
  change (skipn 20 (zbyte (code p) :: ident p :: h :: l :: auth p ++ spec_wire (pattrs p)))
    with (skipn 16 (auth p ++ spec_wire (pattrs p))).
  rewrite <- Ha at 1. rewrite skipn_app_exact.
  rewrite <- (spec_wire_filter (pattrs p)).
  assert (Ht : parse_attrs (spec_wire (filter in_range (pattrs p))) = Ok (filter in_range (pattrs p))).
  { apply parse_attrs_iff. apply wire_tlvs; [apply forallb_filter_in_range|apply forallb_value_fits_filter; exact Hf]. }
  rewrite Ht. unfold wire_view. f_equal. f_equal.
  - unfold zbyte. lia.
  - rewrite <- Ha at 1. apply firstn_app_exact.
Qed.

(* ---- marshal after parse ---- *)
Lemma firstn_hdr {A} (c i l1 l2 : A) rest n : 4 <= n ->
  firstn n (c :: i :: l1 :: l2 :: rest) = c :: i :: l1 :: l2 :: firstn (n - 4) rest.
Proof.
  intros H. replace n with (4 + (n - 4)) at 1 by lia. reflexivity.
Qed.

Lemma skipn_20_hdr {A} (c i l1 l2 : A) body : skipn 20 (c :: i :: l1 :: l2 :: body) = skipn 16 body.
Proof. reflexivity. Qed.

Theorem parse_marshal b s p : bytes_ok b -> parse b s = Ok p ->
  marshal p = Ok (firstn (length_field b) b) /\ packet_wf p /\ secret p = s.
Proof.
  intros Hb. rewrite parse_unfold.
  destruct (Nat.ltb_spec (length b) 20) as [Hs|Hs]; [discriminate|].
  destruct b as [|c [|i [|l1 [|l2 rest]]]]; cbn [length] in Hs; try lia.
  rewrite length_field_cons. cbv zeta. set (n := hdr_len l1 l2).
  destruct ((n <? 20) || (4096 <? n) || (length (c :: i :: l1 :: l2 :: rest) <? n)) eqn:E; [discriminate|].
  cbn [length] in E.
  rewrite firstn_hdr by lia. rewrite skipn_20_hdr.
  set (body := firstn (n - 4) rest).
  destruct (parse_attrs (skipn 16 body)) as [at_| | |] eqn:Ep; try discriminate.
  intros H; apply Ok_inj in H; subst p.
  apply parse_attrs_iff in Ep.
  inversion Hb as [|? ? Hc Hb1]; subst. inversion Hb1 as [|? ? Hi Hb2]; subst.
  inversion Hb2 as [|? ? Hl1 Hb3]; subst. inversion Hb3 as [|? ? Hl2 Hrest]; subst.
  assert (Hbody : bytes_ok (skipn 16 body)).
  { apply bytes_ok_skipn, bytes_ok_firstn, Hrest. }
  destruct (tlvs_wire _ _ Hbody Ep) as (Hw & Hf & Hr).
  assert (Hlb : length body = n - 4) by (unfold body; rewrite firstn_length; lia).
  assert (H16 : firstn 16 rest = firstn 16 body).
  { unfold body. rewrite firstn_firstn. f_equal. lia. }
  split; [|split; [|reflexivity]].
  - rewrite marshal_spec. cbn [pattrs code ident auth]. rewrite Hf. cbv zeta. rewrite Hw.
    rewrite skipn_length, Hlb.
    replace (4096 <? 20 + (n - 4 - 16)) with false by lia.
    replace (20 + (n - 4 - 16)) with n by lia.
    replace (zbyte (Z.of_N c)) with c by (unfold zbyte, byte_ok in *; lia).
    replace (be_enc 2 (N.of_nat n)) with [l1; l2].
    + cbn [app]. rewrite H16, firstn_skipn. reflexivity.
    + unfold n, hdr_len. rewrite N2Nat.id.
      change 2 with (length [l1; l2]). symmetry. apply be_enc_dec.
      constructor; [exact Hl1|constructor; [exact Hl2|constructor]].
  - unfold packet_wf. cbn [ident auth]. split; [exact Hi|]. split.
    + rewrite firstn_length. lia.
    + apply bytes_ok_firstn. exact Hrest.
Qed.

(* octets beyond Length are ignored *)
Theorem parse_ignores_padding b s p pad :
  parse b s = Ok p -> parse (firstn (length_field b) b ++ pad) s = Ok p.
Proof.
  rewrite !parse_unfold.
  destruct (Nat.ltb_spec (length b) 20) as [Hs|Hs]; [discriminate|].
  destruct b as [|c [|i [|l1 [|l2 rest]]]]; cbn [length] in Hs; try lia.
  rewrite length_field_cons. cbv zeta. set (n := hdr_len l1 l2).
  destruct ((n <? 20) || (4096 <? n) || (length (c :: i :: l1 :: l2 :: rest) <? n)) eqn:E; [discriminate|].
  cbn [length] in E.
  rewrite firstn_hdr by lia. rewrite skipn_20_hdr.
  set (body := firstn (n - 4) rest).
  assert (Hlb : length body = n - 4) by (unfold body; rewrite firstn_length; lia).
  assert (H16 : firstn 16 rest = firstn 16 body).
  { unfold body. rewrite firstn_firstn. f_equal. lia. }
  intros H. cbn [app length]. rewrite app_length, Hlb.
  replace (S (S (S (S (n - 4 + length pad)))) <? 20) with false by lia.
  fold n.
  replace ((n <? 20) || (4096 <? n) || (S (S (S (S (n - 4 + length pad)))) <? n)) with false by lia.
  rewrite firstn_hdr by lia. rewrite skipn_20_hdr.
  replace (firstn (n - 4) (body ++ pad)) with body.
  - replace (firstn 16 (body ++ pad)) with (firstn 16 rest); [exact H|].
    rewrite H16, firstn_app, Hlb. replace (16 - (n - 4)) with 0 by lia.
    rewrite firstn_O, app_nil_r. reflexivity.
  - rewrite <- Hlb. symmetry. apply firstn_app_exact.
Qed.
