
val xorb : bool -> bool -> bool

val negb : bool -> bool

type nat =
| O
| S of nat

type ('a, 'b) sum =
| Inl of 'a
| Inr of 'b

val fst : ('a1 * 'a2) -> 'a1

val snd : ('a1 * 'a2) -> 'a2

val length : 'a1 list -> nat

val app : 'a1 list -> 'a1 list -> 'a1 list

type comparison =
| Eq
| Lt
| Gt

val compOpp : comparison -> comparison

val pred : nat -> nat

val add : nat -> nat -> nat

val mul : nat -> nat -> nat

val sub : nat -> nat -> nat

val eqb : nat -> nat -> bool

val leb : nat -> nat -> bool

val ltb : nat -> nat -> bool

val eqb0 : bool -> bool -> bool

module Nat :
 sig
  val sub : nat -> nat -> nat

  val eqb : nat -> nat -> bool

  val leb : nat -> nat -> bool

  val ltb : nat -> nat -> bool

  val max : nat -> nat -> nat

  val min : nat -> nat -> nat

  val even : nat -> bool

  val divmod : nat -> nat -> nat -> nat -> nat * nat

  val div : nat -> nat -> nat

  val modulo : nat -> nat -> nat

  val eq_dec : nat -> nat -> bool
 end

type positive =
| XI of positive
| XO of positive
| XH

type n =
| N0
| Npos of positive

type z =
| Z0
| Zpos of positive
| Zneg of positive

module Pos :
 sig
  type mask =
  | IsNul
  | IsPos of positive
  | IsNeg
 end

module Coq_Pos :
 sig
  val succ : positive -> positive

  val add : positive -> positive -> positive

  val add_carry : positive -> positive -> positive

  val pred_double : positive -> positive

  val pred_N : positive -> n

  type mask = Pos.mask =
  | IsNul
  | IsPos of positive
  | IsNeg

  val succ_double_mask : mask -> mask

  val double_mask : mask -> mask

  val double_pred_mask : positive -> mask

  val sub_mask : positive -> positive -> mask

  val sub_mask_carry : positive -> positive -> mask

  val mul : positive -> positive -> positive

  val iter : ('a1 -> 'a1) -> 'a1 -> positive -> 'a1

  val pow : positive -> positive -> positive

  val div2 : positive -> positive

  val div2_up : positive -> positive

  val compare_cont : comparison -> positive -> positive -> comparison

  val compare : positive -> positive -> comparison

  val eqb : positive -> positive -> bool

  val coq_Nsucc_double : n -> n

  val coq_Ndouble : n -> n

  val coq_lor : positive -> positive -> positive

  val coq_land : positive -> positive -> n

  val ldiff : positive -> positive -> n

  val coq_lxor : positive -> positive -> n

  val shiftl : positive -> n -> positive

  val testbit : positive -> n -> bool

  val iter_op : ('a1 -> 'a1 -> 'a1) -> positive -> 'a1 -> 'a1

  val to_nat : positive -> nat

  val of_succ_nat : nat -> positive
 end

module N :
 sig
  val succ_double : n -> n

  val double : n -> n

  val succ_pos : n -> positive

  val add : n -> n -> n

  val sub : n -> n -> n

  val mul : n -> n -> n

  val compare : n -> n -> comparison

  val eqb : n -> n -> bool

  val leb : n -> n -> bool

  val ltb : n -> n -> bool

  val div2 : n -> n

  val pow : n -> n -> n

  val pos_div_eucl : positive -> n -> n * n

  val div_eucl : n -> n -> n * n

  val div : n -> n -> n

  val modulo : n -> n -> n

  val coq_lor : n -> n -> n

  val coq_land : n -> n -> n

  val ldiff : n -> n -> n

  val coq_lxor : n -> n -> n

  val shiftl : n -> n -> n

  val shiftr : n -> n -> n

  val testbit : n -> n -> bool

  val to_nat : n -> nat

  val of_nat : nat -> n
 end

val hd : 'a1 -> 'a1 list -> 'a1

val tl : 'a1 list -> 'a1 list

val in_dec : ('a1 -> 'a1 -> bool) -> 'a1 -> 'a1 list -> bool

val nth : nat -> 'a1 list -> 'a1 -> 'a1

val nth_error : 'a1 list -> nat -> 'a1 option

val rev : 'a1 list -> 'a1 list

val rev_append : 'a1 list -> 'a1 list -> 'a1 list

val concat : 'a1 list list -> 'a1 list

val map : ('a1 -> 'a2) -> 'a1 list -> 'a2 list

val flat_map : ('a1 -> 'a2 list) -> 'a1 list -> 'a2 list

val fold_left : ('a1 -> 'a2 -> 'a1) -> 'a2 list -> 'a1 -> 'a1

val fold_right : ('a2 -> 'a1 -> 'a1) -> 'a1 -> 'a2 list -> 'a1

val existsb : ('a1 -> bool) -> 'a1 list -> bool

val forallb : ('a1 -> bool) -> 'a1 list -> bool

val filter : ('a1 -> bool) -> 'a1 list -> 'a1 list

val find : ('a1 -> bool) -> 'a1 list -> 'a1 option

val combine : 'a1 list -> 'a2 list -> ('a1 * 'a2) list

val firstn : nat -> 'a1 list -> 'a1 list

val skipn : nat -> 'a1 list -> 'a1 list

val nodup : ('a1 -> 'a1 -> bool) -> 'a1 list -> 'a1 list

val seq : nat -> nat -> nat list

val repeat : 'a1 -> nat -> 'a1 list

module Z :
 sig
  val double : z -> z

  val succ_double : z -> z

  val pred_double : z -> z

  val pos_sub : positive -> positive -> z

  val add : z -> z -> z

  val opp : z -> z

  val sub : z -> z -> z

  val mul : z -> z -> z

  val pow_pos : z -> positive -> z

  val pow : z -> z -> z

  val compare : z -> z -> comparison

  val leb : z -> z -> bool

  val ltb : z -> z -> bool

  val geb : z -> z -> bool

  val gtb : z -> z -> bool

  val eqb : z -> z -> bool

  val to_nat : z -> nat

  val to_N : z -> n

  val of_nat : nat -> z

  val of_N : n -> z

  val pos_div_eucl : positive -> z -> z * z

  val div_eucl : z -> z -> z * z

  val div : z -> z -> z

  val modulo : z -> z -> z

  val quotrem : z -> z -> z * z

  val quot : z -> z -> z

  val rem : z -> z -> z

  val div2 : z -> z

  val shiftl : z -> z -> z

  val shiftr : z -> z -> z

  val coq_lor : z -> z -> z

  val coq_land : z -> z -> z

  val ldiff : z -> z -> z

  val coq_lxor : z -> z -> z
 end

type ascii =
| Ascii of bool * bool * bool * bool * bool * bool * bool * bool

val zero : ascii

val one : ascii

val shift : bool -> ascii -> ascii

val eqb1 : ascii -> ascii -> bool

val ascii_of_pos : positive -> ascii

val ascii_of_N : n -> ascii

val n_of_digits : bool list -> n

val n_of_ascii : ascii -> n

type string =
| EmptyString
| String of ascii * string

val eqb2 : string -> string -> bool

val list_ascii_of_string : string -> ascii list

type bytes = n list

val beq : bytes -> bytes -> bool

val be_dec_acc : n -> bytes -> n

val be_dec : bytes -> n

val be_enc : nat -> n -> bytes

val xor_pad : bytes -> bytes -> bytes

val pad_to : nat -> bytes -> bytes

val take_until_nul : bytes -> bytes

val zbyte : z -> n

type cmpop =
| OpGT
| OpGE
| OpLT
| OpLE
| OpEQ
| OpNE

type guard = { gexpr : string; gop : cmpop; glit : z }

val bad_guard : guard

val gd : guard list -> nat -> guard

val holds : guard -> z -> bool

val sw : z list list list -> nat -> nat -> z list

val zmem : z -> z list -> bool

type 'a res =
| Ok of 'a
| Err of n
| Panic
| OutOfFuel

val bind : 'a1 res -> ('a1 -> 'a2 res) -> 'a2 res

val e_short : n

val e_badlen : n

val e_attr_short : n

val e_attr_len : n

val e_attr_big : n

val e_pkt_big : n

val e_unknown_code : n

val e_invalid : n

val remove_at : nat -> 'a1 list -> 'a1 list

val update_at : nat -> 'a1 -> 'a1 list -> 'a1 list

val k_MaxPacketLength : z

val g_AttributesEncodedLen : guard list

val g_Attributes_encodeTo : guard list

val g_Client_Exchange : guard list

val g_Date : guard list

val g_IFID : guard list

val g_IPAddr : guard list

val g_IPv6Addr : guard list

val g_IPv6Prefix : guard list

val g_Integer : guard list

val g_Integer64 : guard list

val g_IsAuthenticRequest : guard list

val sW_IsAuthenticRequest : z list list list

val g_IsAuthenticResponse : guard list

val g_NewBytes : guard list

val g_NewDate : guard list

val g_NewIFID : guard list

val g_NewIPv6Prefix : guard list

val g_NewString : guard list

val g_NewTLV : guard list

val g_NewTunnelPassword : guard list

val g_NewUserPassword : guard list

val g_NewVendorSpecific : guard list

val g_PacketServer_Serve : guard list

val sW_Packet_Encode : z list list list

val g_Packet_MarshalBinary : guard list

val g_Parse : guard list

val g_ParseAttributes : guard list

val g_Short : guard list

val g_TLV : guard list

val g_TunnelPassword : guard list

val g_UserPassword : guard list

val g_VendorSpecific : guard list

val b_rfc2759_magic1 : n list

val b_rfc2759_magic2 : n list

val g_rfc2759_DESCrypt : guard list

val k_rfc3079_KeyLength128Bit : z

val b_rfc3079_shaPad1 : n list

val b_rfc3079_shaPad2 : n list

val b_rfc3079_magic1 : n list

val b_rfc3079_magic2 : n list

val b_rfc3079_magic3 : n list

val g_rfc3079_GetAsymmetricStartKey : guard list

val g_rfc3079_MakeKey : guard list

val k_dictionary_AttributeOctets : z

val k_dictionary_AttributeString : z

val g_dictionary_Parser_parseAttribute : guard list

val g_dictionary_Parser_parseVendor : guard list

val t_parser_types : (string * z) list

val t_string : z

val t_octets : z

val t_ipaddr : z

val t_date : z

val t_integer : z

val t_ipv6addr : z

val t_ipv6prefix : z

val t_ifid : z

val t_integer64 : z

val t_vsa : z

val t_byte : z

val t_short : z

type gattr = { ga_name : bytes; ga_ident : bytes; ga_oid : z list;
               ga_type : z; ga_size : z option; ga_enc : z option;
               ga_tag : bool option; ga_concat : bool option }

type gvalue = { gl_attr : bytes; gl_name : bytes; gl_ident : bytes; gl_num : z }

type gvendor = { gn_name : bytes; gn_ident : bytes; gn_num : z; gn_tlen : 
                 z; gn_llen : z; gn_attrs : gattr list; gn_vals : gvalue list }

type gdict = { gd_attrs : gattr list; gd_vals : gvalue list;
               gd_vendors : gvendor list }

type gopts = { go_ignore : bytes list; go_ext : (bytes * bytes) list }

val e_conflict : n

val e_attr : n

val e_unknown : n

val e_vendor : n

val e_vattr : n

val e_range : n

val e_valconflict : n

val mem : bytes -> bytes list -> bool

val has_tag : gattr -> bool

val is_concat : gattr -> bool

val is_str : z -> bool

val salted : gattr -> bool

val some : 'a1 option -> bool

val is_int : z -> bool

val enc_supported : gattr -> z -> bool

val common_invalid : gattr -> bool

val supported : z -> bool

val invalid_top : gattr -> bool

val invalid_vendor_attr : gattr -> bool

val check_attrs :
  (gattr -> bool) -> n -> bytes list -> bytes list -> gattr list -> (gattr
  list * bytes list) res

val insert : ('a1 -> 'a1 -> bool) -> 'a1 -> 'a1 list -> 'a1 list

val sort : ('a1 -> 'a1 -> bool) -> 'a1 list -> 'a1 list

val oid_lt : nat -> z list -> z list -> bool

val bytes_lt : bytes -> bytes -> bool

val oid_cmp_lt : z list -> z list -> bool

val attr_lt : gattr -> gattr -> bool

val value_lt : gvalue -> gvalue -> bool

val split_values :
  bytes list -> bytes list -> bytes list -> gvalue list -> (gvalue
  list * gvalue list) res

val max_of : z -> z option

val check_vals : z -> (bytes * z) list -> gvalue list -> n option

val check_values : gattr -> gvalue list -> n option

val first_error : ('a1 -> n option) -> 'a1 list -> n option

type fname =
| FAdd
| FAddString
| FGet
| FGetString
| FGets
| FGetStrings
| FLookup
| FLookupString
| FSet
| FSetString
| FDel

type vtype =
| VBytes
| VString
| VIP
| VHW
| VNet
| VTime
| VNamed
| VByte

type gdecl =
| DTypeConst of bytes * z
| DVendorConst of bytes * z
| DExtInit of bytes * (bytes * z) list
| DIntType of bytes * z
| DValueConst of bytes * bytes * z
| DStrings of bytes
| DStringer of bytes
| DFunc of bytes * fname * bool * bool * vtype
| DVendorFunc of bytes * z

val dedup : gvalue list -> gvalue list

val values_of_attr : gattr -> gvalue list -> gvalue list

val funcs : gattr -> gvalue list -> gdecl list

type cvendor = { cv_name : bytes; cv_ident : bytes; cv_num : z;
                 cv_attrs : gattr list; cv_vals : gvalue list }

val cvendor_lt : cvendor -> cvendor -> bool

val check_vendors :
  bytes list -> bytes list -> bytes list -> gvendor list -> cvendor list res

val ext_values : gvalue list -> (bytes * bytes) -> gvalue list

val emit :
  gattr list -> (bytes * bytes) list -> gvalue list -> gvalue list -> cvendor
  list -> gdecl list

val gen : gopts -> gdict -> gdecl list res

type avp = { atype : z; aval : bytes }

type attrs = avp list

val zlen : 'a1 list -> z

val parse_attrs_f : nat -> bytes -> attrs res

val parse_attrs : bytes -> attrs res

val add0 : z -> bytes -> attrs -> attrs

val del_loop : nat -> z -> nat -> attrs -> attrs res

val del : z -> attrs -> attrs res

val lookup : z -> attrs -> bytes option

val get : z -> attrs -> bytes

val set_loop : nat -> z -> bytes -> nat -> bool -> attrs -> attrs res

val set : z -> bytes -> attrs -> attrs res

val skip_type : guard list -> avp -> bool

val tlv : avp -> bytes

val encode_to : attrs -> bytes -> bytes res

val enc_len_acc : attrs -> nat -> nat res

val enc_len : attrs -> nat res

type packet = { code : z; ident : n; auth : bytes; secret : bytes;
                pattrs : attrs }

val parse : bytes -> bytes -> packet res

val marshal : packet -> bytes res

val zeros16 : bytes

val put_auth : bytes -> bytes -> bytes

val encode : (bytes -> bytes) -> packet -> bytes res

val is_authentic_response :
  (bytes -> bytes) -> bytes -> bytes -> bytes -> bool

val is_authentic_request : (bytes -> bytes) -> bytes -> bytes -> bool

val response : packet -> z -> packet

val new_packet : z -> bytes -> bytes -> packet res

val dec_uint : guard list -> bytes -> n res

val integer : bytes -> n res

val short : bytes -> n res

val integer64 : bytes -> n res

val new_integer : n -> bytes

val new_short : n -> bytes

val new_integer64 : n -> bytes

val new_string : bytes -> bytes res

val new_bytes : bytes -> bytes res

val all_zero : bytes -> bool

val to4 : bytes -> bytes option

val v4_in_v6_prefix : bytes

val to16 : bytes -> bytes option

val ipaddr : bytes -> bytes res

val new_ipaddr : bytes -> bytes res

val ipv6addr : bytes -> bytes res

val new_ipv6addr : bytes -> bytes res

val ifid : bytes -> bytes res

val new_ifid : bytes -> bytes res

val date : bytes -> z res

val new_date : z -> bytes res

val vendor_specific : bytes -> (n * bytes) res

val new_vendor_specific : n -> bytes -> bytes res

val tlv_dec : bytes -> (n * bytes) res

val new_tlv : n -> bytes -> bytes res

val byte_ones : n -> nat option

val mask_ones : bytes -> nat option

val mask_size : bytes -> nat * nat

val keep_top : n -> nat -> n

val new_ipv6prefix : bytes -> bytes -> bytes res

val cidr_mask : nat -> nat -> bytes

val low_zero : n -> nat -> bool

val ipv6prefix : bytes -> (bytes * bytes) res

val slice : bytes -> nat -> nat -> bytes res

val xor_at : bytes -> nat -> bytes -> bytes

val nup_loop :
  (bytes -> bytes) -> nat -> bytes -> bytes -> bytes -> nat -> bytes res

val new_user_password :
  (bytes -> bytes) -> bytes -> bytes -> bytes -> bytes res

val up_loop :
  (bytes -> bytes) -> nat -> bytes -> bytes -> bytes -> nat -> bytes res

val user_password : (bytes -> bytes) -> bytes -> bytes -> bytes -> bytes res

val xor_block : bytes -> nat -> bytes -> bytes res

val ntp_loop :
  (bytes -> bytes) -> nat -> nat -> bytes -> bytes -> bytes -> bytes -> bytes
  res

val salt_msb_set : n -> bool

val new_tunnel_password :
  (bytes -> bytes) -> bytes -> bytes -> bytes -> bytes -> bytes res

val tp_loop :
  (bytes -> bytes) -> nat -> nat -> bytes -> bytes -> bytes -> bytes -> bytes
  -> bytes res

val tunnel_password :
  (bytes -> bytes) -> bytes -> bytes -> bytes -> (bytes * bytes) res

val vSA_TYPE : z

val walk : nat -> bytes -> (n * bytes) list * bytes

val subattrs : bytes -> (n * bytes) list * bytes

val vsa_payload : n -> avp -> bytes option

val values_of : n -> (n * bytes) list -> bytes list

val gets_vendor : n -> n -> attrs -> bytes list

val vendor_tlv : n -> bytes -> bytes

val add_vendor : n -> n -> bytes -> attrs -> attrs res

val strip : n -> bytes -> bool * bytes

val del_vendor : n -> n -> attrs -> attrs

val set_vendor : n -> n -> bytes -> attrs -> attrs res

type hkind =
| KBytes
| KConcat
| KIP4
| KIP6
| KIFID
| KPrefix
| KDate
| KInt of nat
| KByte

type hdesc = { h_type : z; h_kind : hkind; h_tag : bool; h_enc : z;
               h_size : z option; h_vendor : n option }

type gv = { g_b : bytes; g_u : z; g_mask : bytes }

val gv_b : bytes -> gv

val gv_u : z -> gv

val e_noattr : n

val forced_salt : bytes -> bytes

val tp_wrap : (bytes -> bytes) -> packet -> bytes -> bytes -> bytes res

val h_encode :
  (bytes -> bytes) -> hdesc -> packet -> bytes -> n -> gv -> bytes res

val chunks : nat -> bytes -> bytes list

val h_add :
  (bytes -> bytes) -> hdesc -> packet -> bytes -> n -> gv -> packet res

val h_set :
  (bytes -> bytes) -> hdesc -> packet -> bytes -> n -> gv -> packet res

val h_del : hdesc -> packet -> packet res

val h_decode :
  (bytes -> bytes) -> hdesc -> packet -> packet -> bytes -> (n * gv) res

val h_raw : hdesc -> packet -> bytes list

val h_lookup : (bytes -> bytes) -> hdesc -> packet -> packet -> (n * gv) res

val decode_all :
  (bytes -> bytes) -> hdesc -> packet -> packet -> bytes list -> (n * gv)
  list res

val h_gets :
  (bytes -> bytes) -> hdesc -> packet -> packet -> (n * gv) list res

type heap = bytes list

type slice0 = { s_addr : nat; s_off : nat; s_len : nat }

val cell : heap -> nat -> bytes

val rd : heap -> slice0 -> bytes

val alloc : heap -> bytes -> heap * slice0

val set_nth : nat -> 'a1 -> 'a1 list -> 'a1 list

val wr : heap -> slice0 -> nat -> n -> heap

type mpacket = { mp_code : z; mp_ident : n; mp_auth : bytes;
                 mp_secret : slice0; mp_attrs : (z * slice0) list }

val pview : heap -> mpacket -> packet

val sub_slices : n -> slice0 -> nat -> (n * bytes) list -> slice0 list

val m_raw : hdesc -> heap -> mpacket -> slice0 list

val is_tagged_int : hdesc -> bool

type mval = { v_tag : n; v_b : slice0; v_u : z; v_mask : slice0 }

val give : heap -> (n * gv) -> heap * mval

val clear_tag : bool -> hdesc -> heap -> slice0 -> heap

val m_lookup :
  (bytes -> bytes) -> bool -> hdesc -> heap -> mpacket -> packet ->
  heap * mval res

val m_gets_loop :
  (bytes -> bytes) -> bool -> hdesc -> heap -> mpacket -> packet -> slice0
  list -> heap * mval list res

val m_gets :
  (bytes -> bytes) -> bool -> hdesc -> heap -> mpacket -> packet ->
  heap * mval list res

val val_view : heap -> mval -> n * gv

val e_nonauth : n

type outcome =
| Returned of packet * nat
| Failed of n * nat
| Waiting of z

val over_budget : z -> nat -> z -> bool

val client_loop :
  (bytes -> bytes) -> z -> bool -> bytes -> bytes -> bytes list -> z -> nat
  -> outcome

val exchange_recv :
  (bytes -> bytes) -> z -> bool -> bytes -> bytes -> bytes list -> outcome

type xret =
| XPacket of packet
| XErr of n
| XCtxErr
| XNetErr

type mpc =
| M_start
| M_dialled
| M_reading of z
| M_returned of xret

type hpc =
| Hp_none
| Hp_running
| Hp_exited

type xstate = { xmain : mpc; xhelper : hpc; ctx_done : bool;
                derived_done : bool; conn_closed : bool;
                ticker_stopped : bool; sent : bytes list }

type xevent =
| XStep
| XDialFail
| XDatagram of bytes
| XReadErr
| XTick
| XCtxDone
| XHelper

val xinit : xstate

val set_main : xstate -> mpc -> xstate

val do_return : xstate -> xret -> xstate

val write : xstate -> bytes -> bytes list

val xstep :
  (bytes -> bytes) -> z -> z -> bool -> packet -> xstate -> xevent -> xstate

val xrun :
  (bytes -> bytes) -> z -> z -> bool -> packet -> xstate -> xevent list ->
  xstate

type str = bytes

val s2b : string -> str

type attr = { a_name : str; a_oid : z list; a_type : z; a_size : z option;
              a_encrypt : z option; a_has_tag : bool; a_concat : bool }

type value = { v_attr : str; v_name : str; v_number : z }

type vendor = { vn_name : str; vn_number : z; vn_format : (z * z) option;
                vn_attrs : attr list; vn_values : value list }

type dict = { d_attrs : attr list; d_values : value list;
              d_vendors : vendor list }

val empty_dict : dict

val pE_oid : n

val pE_type : n

val pE_dupflag : n

val pE_enctype : n

val pE_flag : n

val pE_dupattr : n

val pE_valnum : n

val pE_vendnum : n

val pE_vendfmt : n

val pE_dupvendor : n

val pE_nested : n

val pE_unkvendor : n

val pE_unmatched : n

val pE_badend : n

val pE_incl_in_block : n

val pE_open : n

val pE_recursive : n

val pE_unkline : n

val pE_unclosed : n

val pE_scan : n

type perr =
| ParseErr of n * str * nat
| PlainErr of n

type 'a pres =
| POk of 'a
| PFail of perr
| PFuel

val frev : 'a1 list -> 'a1 list

val is_space : n -> bool

val fields_acc : n list -> bytes -> str list

val fields : bytes -> str list

val drop_cr : bytes -> bytes

val lines_acc : n list -> bytes -> bytes list

val scan_lines : bytes -> bytes list

val max_token : n

val strip_comment : bytes -> bytes

val digit_val : n -> z option

val digits_val : z -> z -> bytes -> z option

val parse_uint32 : z -> bytes -> z option

val int32_body : bool -> bytes -> z option

val parse_int32 : bytes -> z option

val max_int : z

val parse_oid_aux : bool -> z list -> bytes -> z list option

val parse_oid : bytes -> z list

val lower : n -> n

val equal_fold : bytes -> bytes -> bool

val lookup_type : (string * z) list -> bytes -> z option

val split_on : n -> n list -> bytes -> bytes list

val has_prefix : bytes -> bytes -> bool

val apply_flags : bytes list -> attr -> attr res

val parse_attribute : bytes -> bytes -> bytes -> bytes option -> attr res

val parse_value : bytes -> bytes -> bytes -> value res

val parse_vendor : bytes -> bytes -> bytes option -> vendor res

val oid_eqb : z list -> z list -> bool

val attr_by_name : attr list -> str -> attr option

val attr_by_oid : attr list -> z list -> attr option

val vendor_index_by_name : vendor list -> str -> nat -> nat option

val vendor_by_name_or_number : vendor list -> str -> z -> bool

val opt_z_eqb : z option -> z option -> bool

val attr_equals : attr -> attr -> bool

val upd_vendor : dict -> nat -> (vendor -> vendor) -> dict

type line_act =
| LSkip
| LAttr of bytes * bytes * bytes * bytes option
| LValue of bytes * bytes * bytes
| LVendor of bytes * bytes * bytes option
| LBegin of bytes
| LEnd of bytes
| LInclude of bytes
| LUnknown

val classify_line : bytes -> line_act

type ioev =
| EvOpen of str
| EvClose of str
| EvReclose of str

val apply_simple :
  bool -> dict -> nat option -> line_act -> (dict * nat option) res

val too_long : bytes -> bool

type recur_t =
  str list -> str -> bytes -> dict -> ioev list -> dict pres * ioev list

val parse_lines :
  bool -> (str -> (str * bytes) option) -> recur_t -> str list -> str ->
  bytes list -> nat -> nat option -> dict -> ioev list -> dict pres * ioev
  list

val parse_file : bool -> (str -> (str * bytes) option) -> nat -> recur_t

val parse_root :
  bool -> (str -> (str * bytes) option) -> nat -> str -> bytes -> dict
  pres * ioev list

type heap0 = vendor list

type pdict = { p_attrs : attr list; p_values : value list;
               p_vendors : nat list }

val deref : heap0 -> nat -> vendor

val view : heap0 -> pdict -> dict

val ptr_by_name : heap0 -> nat list -> str -> nat option

val ptr_by_number : heap0 -> nat list -> z -> nat option

val index_by_number : heap0 -> nat list -> z -> nat -> nat option

val opt_nat_eqb : nat option -> nat option -> bool

val attr_clash : attr list -> attr -> bool

val e_merge_attr : n

val e_merge_vendor : n

val e_merge_vattr : n

val check_attrs0 : pdict -> pdict -> bool

val check_vendors0 : heap0 -> pdict -> nat list -> n option

val assemble : bool -> heap0 -> nat list -> nat list -> heap0 * nat list

val merge : bool -> heap0 -> pdict -> pdict -> (heap0 * pdict) res

val load : heap0 -> dict -> heap0 * pdict

val popcount : n -> nat

val parity_pad : bytes -> bytes

val des_crypt : (bytes -> bytes -> bytes) -> bytes -> bytes -> bytes

val challenge_hash : (bytes -> bytes) -> bytes -> bytes -> bytes -> bytes

val nt_password_hash : (bytes -> bytes) -> bytes -> bytes

val challenge_response : (bytes -> bytes -> bytes) -> bytes -> bytes -> bytes

val generate_nt_response :
  (bytes -> bytes) -> (bytes -> bytes) -> (bytes -> bytes) -> (bytes -> bytes
  -> bytes) -> bytes -> bytes -> bytes -> bytes -> bytes

val hex_upper_digit : n -> n

val hex_upper : bytes -> bytes

val generate_authenticator_response :
  (bytes -> bytes) -> (bytes -> bytes) -> (bytes -> bytes) -> bytes -> bytes
  -> bytes -> bytes -> bytes -> bytes

val get_master_key : (bytes -> bytes) -> bytes -> bytes -> bytes

val get_asymmetric_start_key :
  (bytes -> bytes) -> bytes -> nat -> bool -> bytes res

val make_key :
  (bytes -> bytes) -> (bytes -> bytes) -> (bytes -> bytes) -> bytes -> bytes
  -> bool -> bytes res

val txt : string -> bytes

val rfc_magic1 : bytes

val rfc_magic2 : bytes

val rfc_mppe_magic1 : bytes

val rfc_mppe_magic2 : bytes

val rfc_mppe_magic3 : bytes

val rfc_shspad1 : bytes

val rfc_shspad2 : bytes

val digit128 : bytes -> nat -> n

val ones : n -> nat

val with_odd_parity : n -> n

val rfc_des_key : bytes -> bytes

val rfc_des_encrypt : (bytes -> bytes -> bytes) -> bytes -> bytes -> bytes

val rfc_challenge_hash : (bytes -> bytes) -> bytes -> bytes -> bytes -> bytes

val rfc_nt_password_hash : (bytes -> bytes) -> bytes -> bytes

val rfc_challenge_response :
  (bytes -> bytes -> bytes) -> bytes -> bytes -> bytes

val rfc_generate_nt_response :
  (bytes -> bytes) -> (bytes -> bytes) -> (bytes -> bytes) -> (bytes -> bytes
  -> bytes) -> bytes -> bytes -> bytes -> bytes -> bytes

val up_hex : n -> n

val rfc_hex : bytes -> bytes

val rfc_generate_authenticator_response :
  (bytes -> bytes) -> (bytes -> bytes) -> (bytes -> bytes) -> bytes -> bytes
  -> bytes -> bytes -> bytes -> bytes

val rfc_get_master_key : (bytes -> bytes) -> bytes -> bytes -> bytes

val rfc_get_asymmetric_start_key :
  (bytes -> bytes) -> bytes -> nat -> bool -> bytes

val rfc_make_key :
  (bytes -> bytes) -> (bytes -> bytes) -> (bytes -> bytes) -> bytes -> bytes
  -> bool -> bytes

val spec_get_asymmetric_start_key :
  (bytes -> bytes) -> bytes -> nat -> bool -> bytes res

val spec_make_key :
  (bytes -> bytes) -> (bytes -> bytes) -> (bytes -> bytes) -> bytes -> bytes
  -> bool -> bytes res

type key = n * n

val key_eqb : key -> key -> bool

type gstate =
| GDropped
| GRun of key
| GClean of key
| GDone

type dstate = { inflight : key list; gs : gstate list }

val dinit : dstate

type secret_res =
| SecErr
| Sec of bytes

type request = { r_packet : packet; r_remote : n }

val decide :
  (bytes -> bytes) -> bool -> (n -> secret_res) -> n -> bytes -> request
  option

val mem0 : key -> key list -> bool

val delete : key -> key list -> key list

type devent =
| DArrive of n * bytes
| DReturn of nat
| DClean of nat

type dout =
| ODropped
| ODispatched of request
| ONone

val dstep :
  (bytes -> bytes) -> bool -> (n -> secret_res) -> dstate -> devent ->
  dstate * dout

val drun :
  (bytes -> bytes) -> bool -> (n -> secret_res) -> dstate -> devent list ->
  dstate * dout list

val response_write : (bytes -> bytes) -> request -> packet -> (n * bytes) res

val is_key : z -> avp -> bool

val not_key : z -> avp -> bool

val spec_add : z -> bytes -> attrs -> attrs

val spec_del : z -> attrs -> attrs

val spec_lookup : z -> attrs -> bytes option

val spec_set : z -> bytes -> attrs -> attrs

val in_range : avp -> bool

val spec_tlv : avp -> bytes

val spec_wire : attrs -> bytes

type op =
| OAdd of z * bytes
| OSet of z * bytes
| ODel of z
| OGet of z
| OLookup of z

val spec_step : attrs -> op -> attrs * bytes option option

val length_field : bytes -> nat

val spec_tlv_dec_f : nat -> bytes -> attrs res

val spec_tlv_dec : bytes -> attrs res

val spec_parse : bytes -> bytes -> ((((z * n) * bytes) * bytes) * attrs) res

val spec_value_fits : avp -> bool

val spec_marshal : z -> n -> bytes -> attrs -> bytes res

val rfc_reply_codes : z list

val rfc_hashed_request_codes : z list

val rfc_verbatim_codes : z list

val covered : bytes -> bytes -> bytes -> bytes

val auth_field : bytes -> bytes

val zero16 : bytes

val spec_put_auth : bytes -> bytes -> bytes

val spec_encode :
  (bytes -> bytes) -> z -> n -> bytes -> bytes -> attrs -> bytes res

val spec_is_authentic_response :
  (bytes -> bytes) -> bytes -> bytes -> bytes -> bool

val spec_is_authentic_request : (bytes -> bytes) -> bytes -> bytes -> bool

val spec_decide :
  (bytes -> bytes) -> bool -> (n -> secret_res) -> n -> bytes -> request
  option

val spec_dstep :
  (bytes -> bytes) -> bool -> (n -> secret_res) -> dstate -> devent ->
  dstate * dout

val spec_drun :
  (bytes -> bytes) -> bool -> (n -> secret_res) -> dstate -> devent list ->
  dstate * dout list

type sret =
| RetShutdown
| RetErr

type spc =
| S_start
| S_locked
| S_reg
| S_unl
| S_registered
| S_reading
| S_exit of sret
| S_exit_locked of sret
| S_exit_unl of sret
| S_returned of sret

type dpc =
| D_start of bool
| D_handler
| D_exit
| D_end

type hpc0 =
| H_start
| H_locked
| H_close
| H_cancel
| H_dec
| H_unlock
| H_wait
| H_select
| H_ret_nil
| H_ret_err

type thread =
| TServe of nat * spc
| TDgram of dpc
| TShut of hpc0 * bool

type state = { mu : bool; shut : bool; active : z; closes : nat; sdec : 
               bool; regs : nat list; closedc : nat list; cancelled : 
               bool; threads : thread list }

val init : state

type action =
| ARun
| ARead_datagram of bool
| ARead_error of bool
| AHandler_return
| AWake_nil
| AWake_err
| AExpire

val set_thread : state -> nat -> thread -> state

val with_mu : state -> bool -> state

val active_add : state -> state

val active_done : state -> state

val remove_one : nat -> nat list -> nat list

val step_serve : bool -> state -> nat -> nat -> spc -> action -> state option

val step_dgram : state -> nat -> dpc -> action -> state option

val step_shut : state -> nat -> hpc0 -> bool -> action -> state option

val step : bool -> state -> nat -> action -> state option

val add_thread : state -> thread -> state

type hact =
| HServe of nat
| HRelease of nat
| HDeliver of nat * bool
| HHandlerDone of nat
| HShutdown
| HWait of nat
| HExpire of nat

val run_thread : bool -> nat -> state -> nat -> state

val settle_thread : bool -> state -> nat -> state

val settle_all : bool -> state -> nat -> state

val settle : bool -> state -> state

val force_step : bool -> state -> nat -> action -> state

val do_hact : bool -> state -> hact -> state

val status : thread -> z

val run_hacts : bool -> state -> hact list -> z list list

type verdict =
| Acceptable of ((((z * n) * bytes) * bytes) * attrs)
| Bad of n

val classify : (bytes -> bytes) -> bool -> bytes -> bytes -> bytes -> verdict

type soutcome =
| SReturned of ((((z * n) * bytes) * bytes) * attrs) * nat
| SFailed of n * nat
| SWaiting of z

val spec_recv : verdict list -> nat option -> z -> nat -> soutcome

val spec_exchange_recv :
  (bytes -> bytes) -> z -> bool -> bytes -> bytes -> bytes list -> soutcome

val spec_dec_uint : nat -> bytes -> n res

val spec_enc_uint : nat -> n -> bytes

val spec_new_octets : bytes -> bytes res

val v4_mapped_prefix : bytes

val ip_canon : bytes -> bytes option

val spec_new_ipaddr : bytes -> bytes res

val spec_fixed : nat -> bytes -> bytes res

val spec_new_ipv6addr : bytes -> bytes res

val spec_new_date : z -> bytes res

val spec_date : bytes -> z res

val spec_new_vsa : n -> bytes -> bytes res

val spec_vsa : bytes -> (n * bytes) res

val spec_new_tlv : n -> bytes -> bytes res

val spec_tlv6929 : bytes -> (n * bytes) res

val byte_bits : n -> bool list

val bits_of : bytes -> bool list

val leading_ones : bool list -> nat

val spec_mask_ones : bytes -> nat option

val clear_low : n -> nat -> n

val apply_mask : bytes -> nat -> bytes

val mask_of : nat -> nat -> bytes

val spec_new_ipv6prefix : bytes -> bytes -> bytes res

val spec_ipv6prefix : bytes -> (bytes * bytes) res

val rfc_up_enc : (bytes -> bytes) -> nat -> bytes -> bytes -> bytes -> bytes

val up_blocks : nat -> nat

val rfc_up_encrypt : (bytes -> bytes) -> bytes -> bytes -> bytes -> bytes

val rfc_up_dec : (bytes -> bytes) -> nat -> bytes -> bytes -> bytes -> bytes

val rfc_up_decrypt : (bytes -> bytes) -> bytes -> bytes -> bytes -> bytes

val spec_new_user_password :
  (bytes -> bytes) -> bytes -> bytes -> bytes -> bytes res

val spec_user_password :
  (bytes -> bytes) -> bytes -> bytes -> bytes -> bytes res

val tp_blocks : nat -> nat

val tp_plain : bytes -> bytes

val rfc_tp_encrypt :
  (bytes -> bytes) -> bytes -> bytes -> bytes -> bytes -> bytes

val salt_ok : bytes -> bool

val tp_max_password : nat

val spec_new_tunnel_password :
  (bytes -> bytes) -> bytes -> bytes -> bytes -> bytes -> bytes res

val spec_tunnel_password :
  (bytes -> bytes) -> bytes -> bytes -> bytes -> (bytes * bytes) res

val md5_mask32 : n

val md5_add32 : n -> n -> n

val md5_not32 : n -> n

val md5_rotl32 : n -> n -> n

val md5_byte0 : n -> n

val md5_byte1 : n -> n

val md5_byte2 : n -> n

val md5_byte3 : n -> n

val md5_word_le : n -> n -> n -> n -> n

val md5_words_le : n list -> n list

val md5_pad_zeros : n -> nat

val md5_len_bytes_le : n -> n list

val md5_pad : n list -> n list

type md5_state = ((n * n) * n) * n

val md5_init_state : md5_state

val md5_fF : n -> n -> n -> n

val md5_fG : n -> n -> n -> n

val md5_fH : n -> n -> n -> n

val md5_fI : n -> n -> n -> n

val md5_step :
  (n -> n -> n -> n) -> n list -> md5_state -> ((n * n) * nat) -> md5_state

val md5_steps1 : ((n * n) * nat) list

val md5_steps2 : ((n * n) * nat) list

val md5_steps3 : ((n * n) * nat) list

val md5_steps4 : ((n * n) * nat) list

val md5_compress : md5_state -> n list -> md5_state

val md5_process : nat -> md5_state -> n list -> md5_state

val md5_serialize : md5_state -> n list

val md5 : n list -> n list

type val0 =
| VInt of z
| VBool of bool
| VBytes0 of bytes
| VNil
| VErr
| VList of val0 list
| VRec of val0 list
| VTup of val0 list

type binop =
| BAdd
| BSub
| BMul
| BDiv
| BMod
| BAnd
| BOr
| BXor
| BAndNot
| BShl
| BShr
| BEq
| BNe
| BLt
| BLe
| BGt
| BGe
| BLAnd
| BLOr

type expr =
| EInt of z
| EBool of bool
| EStr of bytes
| ENil
| EErr
| EVar of nat
| EBin of binop * expr * expr
| ENot of expr
| EWrap of z * bool * expr
| ELen of expr
| EIdx of expr * expr
| ESlice of expr * expr option * expr option
| EAppend of expr * expr
| ESnoc of expr * expr
| ECat of expr * expr
| EMake of expr
| EBE of nat * expr
| EBEnc of nat * expr
| EMD5 of expr
| EBytesEq of expr * expr
| EIndexByte of expr * expr
| EField of expr * nat
| ERec of expr list
| ETup of expr list
| ECall of string * expr list

type lval =
| LVar of nat
| LField of lval * nat
| LIdx of lval * expr

type stmt =
| SSkip
| SSeq of stmt * stmt
| SAssign of lval * expr
| SMulti of lval option list * expr
| SCopy of lval * expr * expr option * expr
| SIf of expr * stmt * stmt
| SFor of expr * stmt * stmt
| SRet of expr
| SBreak
| SContinue
| SPanic

type func = { f_params : nat; f_locals : nat; f_body : stmt }

type translated =
| Translated of func
| Refused of string

type ctx = string -> val0 list -> val0 option

val wrap : z -> bool -> z -> z

val as_bytes : val0 -> bytes option

val as_list : val0 -> val0 list option

val vget : val0 list -> nat -> val0 option

val vset : val0 list -> nat -> val0 -> val0 list

val vpad : nat -> val0 list

val vext : val0 list -> nat -> val0 list

val vcount : val0 list -> nat

val same_nat : nat -> nat -> bool

val set_nth0 : nat -> 'a1 -> 'a1 list -> 'a1 list

val in_range0 : z -> nat -> bool

val val_eq : val0 -> val0 -> bool option

val arith : binop -> z -> z -> val0 option

val index_byte : bytes -> n -> z -> z

val slice_of : 'a1 list -> z -> z -> 'a1 list option

val eval : ctx -> val0 list -> expr -> val0 option

val lupdate :
  ctx -> val0 list -> lval -> (val0 -> val0 option) -> val0 list option

val copy_into : bytes -> z -> z -> bytes -> bytes option

val assign_all :
  ctx -> val0 list -> lval option list -> val0 list -> val0 list option

type out =
| ONorm of val0 list
| ORet of val0
| OBrk of val0 list
| OCont of val0 list
| OFail
| OFuel

val loop :
  (val0 list -> val0 option) -> (val0 list -> out) -> (val0 list -> out) ->
  nat -> val0 list -> out

val exec : ctx -> nat -> stmt -> val0 list -> out

val run : ctx -> nat -> func -> val0 list -> val0 option option

val lookup_fn : (string * translated) list -> string -> func option

val ctx_of : ctx -> (string * translated) list -> nat -> nat -> ctx

val src_Integer : translated

val src_NewInteger : translated

val src_String : translated

val src_NewString : translated

val src_Bytes : translated

val src_NewBytes : translated

val src_IPAddr : translated

val src_NewIPAddr : translated

val src_IPv6Addr : translated

val src_NewIPv6Addr : translated

val src_IFID : translated

val src_NewIFID : translated

val src_UserPassword : translated

val src_NewUserPassword : translated

val src_Date : translated

val src_NewDate : translated

val src_VendorSpecific : translated

val src_NewVendorSpecific : translated

val src_Integer64 : translated

val src_NewInteger64 : translated

val src_Short : translated

val src_NewShort : translated

val src_TLV : translated

val src_NewTLV : translated

val src_NewTunnelPassword : translated

val src_TunnelPassword : translated

val src_NewIPv6Prefix : translated

val src_IPv6Prefix : translated

val src_ParseAttributes : translated

val src_Attributes_Add : translated

val src_Attributes_Del : translated

val src_Attributes_Get : translated

val src_Attributes_Lookup : translated

val src_Attributes_Set : translated

val src_Attributes_encodeTo : translated

val src_AttributesEncodedLen : translated

val src_New : translated

val src_Parse : translated

val src_Packet_Response : translated

val src_Packet_Encode : translated

val src_Packet_MarshalBinary : translated

val src_IsAuthenticResponse : translated

val src_IsAuthenticRequest : translated

val src_table : (string * translated) list

val prims : ctx

val src_depth : nat

val src_ctx : nat -> ctx

val src_run : string -> nat -> val0 list -> val0 option option

val size_val : val0 -> nat

val take_val :
  nat -> z list -> bytes list -> (val0 * (z list * bytes list)) option

val take_vals : nat -> z list -> bytes list -> val0 list option

type rtok = (z, bytes) sum

val t_val : val0 -> rtok list

val b2s : bytes -> string

val dispatch_src_raw : bytes -> bytes list -> z list -> rtok list option

val sha1_mask32 : n

val sha1_add32 : n -> n -> n

val sha1_not32 : n -> n

val sha1_rotl32 : n -> n -> n

val sha1_byte0 : n -> n

val sha1_byte1 : n -> n

val sha1_byte2 : n -> n

val sha1_byte3 : n -> n

val sha1_word_be : n -> n -> n -> n -> n

val sha1_words_be : n list -> n list

val sha1_pad_zeros : n -> nat

val sha1_len_bytes_be : n -> n list

val sha1_pad : n list -> n list

type sha1_state = (((n * n) * n) * n) * n

val sha1_init_state : sha1_state

val sha1_ch : n -> n -> n -> n

val sha1_parity : n -> n -> n -> n

val sha1_maj : n -> n -> n -> n

val sha1_schedule : nat -> n list -> n list

val sha1_f : nat -> n -> n -> n -> n

val sha1_k : nat -> n

val sha1_step : nat -> sha1_state -> n -> sha1_state

val sha1_rounds : nat -> n list -> sha1_state -> sha1_state

val sha1_compress : sha1_state -> n list -> sha1_state

val sha1_process : nat -> sha1_state -> n list -> sha1_state

val sha1_serialize : sha1_state -> n list

val sha1 : n list -> n list

val md4_mask32 : n

val md4_add32 : n -> n -> n

val md4_not32 : n -> n

val md4_rotl32 : n -> n -> n

val md4_byte0 : n -> n

val md4_byte1 : n -> n

val md4_byte2 : n -> n

val md4_byte3 : n -> n

val md4_word_le : n -> n -> n -> n -> n

val md4_words_le : n list -> n list

val md4_pad_zeros : n -> nat

val md4_len_bytes_le : n -> n list

val md4_pad : n list -> n list

type md4_state = ((n * n) * n) * n

val md4_init_state : md4_state

val md4_fF : n -> n -> n -> n

val md4_fG : n -> n -> n -> n

val md4_fH : n -> n -> n -> n

val md4_step :
  (n -> n -> n -> n) -> n -> n list -> md4_state -> (nat * n) -> md4_state

val md4_steps1 : (nat * n) list

val md4_steps2 : (nat * n) list

val md4_steps3 : (nat * n) list

val md4_compress : md4_state -> n list -> md4_state

val md4_process : nat -> md4_state -> n list -> md4_state

val md4_serialize : md4_state -> n list

val md4 : n list -> n list

val des_byte_bits : n -> bool list

val des_bits_of_bytes : n list -> bool list

val des_bits_to_N : bool list -> n

val des_byte_at : bool list -> nat -> n

val des_permute : nat list -> bool list -> bool list

val des_xor : bool list -> bool list -> bool list

val des_rotl : nat -> bool list -> bool list

val des_IP : nat list

val des_FP : nat list

val des_E : nat list

val des_P : nat list

val des_PC1 : nat list

val des_PC2 : nat list

val des_shifts : nat list

val des_S1 : n list

val des_S2 : n list

val des_S3 : n list

val des_S4 : n list

val des_S5 : n list

val des_S6 : n list

val des_S7 : n list

val des_S8 : n list

val des_SBOXES : n list list

val des_nibble_bits : n -> bool list

val des_b2n : bool -> nat -> nat

val des_sboxes : n list list -> bool list -> bool list

val des_f : bool list -> bool list -> bool list

val des_subkeys_from : nat list -> bool list -> bool list -> bool list list

val des_subkeys : bool list -> bool list list

val des_rounds :
  bool list list -> bool list -> bool list -> bool list * bool list

val des_block_bits : bool list list -> bool list -> bool list

val des_serialize : bool list -> n list

val des_encrypt : n list -> n list -> n list

val utf16_rune_error : n

val utf16_in_range : n -> n -> n -> bool

val utf16_cont : n -> bool

val utf16_invalid : n * nat

val utf16_decode : n -> n list -> n * nat

val utf16_unit_le : n -> n list

val utf16_emit : n -> n list

val utf16_go : nat -> n list -> n list

val utf8_to_utf16le : n list -> n list

type tok =
| TI of z
| TB of bytes

val name_is : bytes -> string -> bool

val t_res : 'a1 res -> ('a1 -> tok list) -> tok list

val t_res_s : 'a1 res -> ('a1 -> tok list) -> tok list

val t_attrs : attrs -> tok list

val t_opt : bytes option -> tok list

val take_attrs : nat -> z list -> bytes list -> attrs * (z list * bytes list)

val take_ops : z list -> bytes list -> op list

val pkt_of : attrs -> packet

val t_after : attrs -> tok list

val m_trace : attrs -> op list -> tok list

val s_after : attrs -> tok list

val s_trace : attrs -> op list -> tok list

val run_attrs : bool -> bytes list -> z list -> tok list

val t_packet : packet -> tok list

val t_tuple : ((((z * n) * bytes) * bytes) * attrs) -> tok list

val arg_packet : bytes list -> z list -> packet

val b1 : bytes list -> bytes

val b2 : bytes list -> bytes

val b3 : bytes list -> bytes

val z1 : z list -> z

val tbool : bool -> tok list

val dispatch_c01 : bytes -> bytes list -> z list -> tok list option

val b4 : bytes list -> bytes

val t_bytes : bytes -> tok list

val t_pair : (bytes * bytes) -> tok list

val dispatch_pw : bytes -> bytes list -> z list -> tok list option

val t_n : n -> tok list

val t_z : z -> tok list

val t_nb : (n * bytes) -> tok list

val zn : z list -> n

val dispatch_codec : bytes -> bytes list -> z list -> tok list option

val t_outcome : outcome -> tok list

val t_soutcome : soutcome -> tok list

val dispatch_client : bytes -> bytes list -> z list -> tok list option

val take_hacts : z list -> hact list

val dispatch_sched : bytes -> bytes list -> z list -> tok list option

val take_devents : z list -> bytes list -> devent list

val t_dout : dout -> tok list

val dispatch_c06 : bytes -> bytes list -> z list -> tok list option

val take_xevents : z list -> bytes list -> xevent list * bytes list

val dispatch_c08 : bytes -> bytes list -> z list -> tok list option

val t_optz : z option -> tok list

val t_attr : attr -> tok list

val t_value : value -> tok list

val t_vendor : vendor -> tok list

val t_dict : dict -> tok list

val t_pres : dict pres -> tok list

val t_trace : ioev list -> tok list

val opener_of : bytes list -> bytes -> (bytes * bytes) option

val dispatch_dict : bytes -> bytes list -> z list -> tok list option

val load_all : heap0 -> bytes list -> (heap0 * pdict list) option

val chain : bool -> heap0 -> pdict -> pdict list -> (heap0 * pdict) res

val dispatch_merge : bytes -> bytes list -> z list -> tok list option

val b5 : bytes list -> bytes

val dispatch_mschap : bytes -> bytes list -> z list -> tok list option

val kind_of : z -> z -> hkind

val t_gv : hdesc -> gv -> tok list

val t_tv : hdesc -> (n * gv) -> tok list

val run_hops : hdesc -> packet -> packet -> z list -> bytes list -> tok list

val dispatch_helper : bytes -> bytes list -> z list -> tok list option

val scribble : heap -> slice0 -> heap

val scribble_val : heap -> mval -> heap

val run_mem :
  bool -> hdesc -> heap -> mpacket -> packet -> mval list -> z list -> tok
  list

val place : bytes list -> z list -> nat -> (z * slice0) list

val dispatch_mem : bytes -> bytes list -> z list -> tok list option

val zopt : z -> z option

val bopt : z -> bool option

val take_gattrs :
  nat -> z list -> bytes list -> gattr list * (z list * bytes list)

val take_gvals :
  nat -> z list -> bytes list -> gvalue list * (z list * bytes list)

val take_gvendors : nat -> z list -> bytes list -> gvendor list

val take_pairs : nat -> bytes list -> (bytes * bytes) list * bytes list

val fcode : fname -> z

val vcode : vtype -> z

val zb : bool -> z

val t_gdecl : gdecl -> tok list

val dispatch_gen : bytes -> bytes list -> z list -> tok list option

val dispatch_src : bytes -> bytes list -> z list -> tok list option

val dispatch : bytes -> bytes list -> z list -> tok list
