(* Model/Packet.v — packet.go transcribed: Parse, MarshalBinary, Encode,
   IsAuthenticResponse, IsAuthenticRequest, Response, New. The hash function is
   a parameter (MD5 in the code; Crypto/MD5.v in the extracted driver). *)
From Radius Require Import Base.Bytes Base.Guard Base.Res Gen.Consts Model.Attrs.
Open Scope nat_scope.

Record packet := mkpacket {
  code : Z;            (* Go: type Code int *)
  ident : N;           (* byte *)
  auth : bytes;        (* [16]byte *)
  secret : bytes;
  pattrs : attrs
}.

Definition packet_wf (p : packet) : Prop :=
  byte_ok (ident p) /\ length (auth p) = 16 /\ bytes_ok (auth p).

(* ---- Parse (packet.go:45-68) ---- *)
Definition parse (b sec : bytes) : res packet :=
  if holds (gd G_Parse 0) (zlen b) then Err E_short else
  match b with
  | c :: i :: l1 :: l2 :: rest =>
    let len := Z.of_N (be_dec [l1; l2]) in      (* binary.BigEndian.Uint16(b[2:4]) *)
    if holds (gd G_Parse 1) len || holds (gd G_Parse 2) len || (zlen b <? len)%Z
    then Err E_badlen
    else
      let n := Z.to_nat len in
      if (n <? 20) || (length b <? n) then Panic else       (* b[20:length] *)
      match parse_attrs (skipn 20 (firstn n b)) with
      | Ok at_ => Ok (mkpacket (Z.of_N c) i (firstn 16 rest) sec at_)
      | Err e => Err e
      | Panic => Panic
      | OutOfFuel => OutOfFuel
      end
  | _ => Panic           (* b[2:4] on fewer than 4 bytes *)
  end.

(* ---- MarshalBinary (packet.go:127-143) ---- *)
Definition marshal (p : packet) : res bytes :=
  match enc_len (pattrs p) with
  | Ok n =>
    let size := 20 + n in
    if holds (gd G_Packet_MarshalBinary 0) (Z.of_nat size) then Err E_pkt_big else
    match encode_to (pattrs p) (repeat 0%N n) with
    | Ok body =>
      Ok (zbyte (code p) :: ident p :: be_enc 2 (Z.to_N (Z.of_nat size mod 65536)) ++ auth p ++ body)
    | Err e => Err e | Panic => Panic | OutOfFuel => OutOfFuel
    end
  | Err e => Err e | Panic => Panic | OutOfFuel => OutOfFuel
  end.

Section Hash.
Variable H : bytes -> bytes.

Definition zeros16 : bytes := repeat 0%N 16.

(* replace bytes 4..20 of b by h (hash.Sum(b[4:4:20])) *)
Definition put_auth (b h : bytes) : bytes := firstn 4 b ++ h ++ skipn 20 b.

(* ---- Encode (packet.go:92-119) ---- *)
Definition encode (p : packet) : res bytes :=
  match marshal p with
  | Ok b =>
    if zmem (code p) (sw SW_Packet_Encode 0 0) then Ok b
    else if zmem (code p) (sw SW_Packet_Encode 0 1) then
      let a := if zmem (code p) (sw SW_Packet_Encode 1 0) then zeros16 else auth p in
      Ok (put_auth b (H (firstn 4 b ++ a ++ skipn 20 b ++ secret p)))
    else Err E_unknown_code
  | r => r
  end.

(* ---- IsAuthenticResponse (packet.go:147-159) ---- *)
Definition is_authentic_response (response request sec : bytes) : bool :=
  if holds (gd G_IsAuthenticResponse 0) (zlen response)
     || holds (gd G_IsAuthenticResponse 1) (zlen request)
     || holds (gd G_IsAuthenticResponse 2) (zlen sec) then false
  else beq (H (firstn 4 response ++ firstn 16 (skipn 4 request) ++ skipn 20 response ++ sec))
           (firstn 16 (skipn 4 response)).

(* ---- IsAuthenticRequest (packet.go:163-183) ---- *)
Definition is_authentic_request (request sec : bytes) : bool :=
  if holds (gd G_IsAuthenticRequest 0) (zlen request)
     || holds (gd G_IsAuthenticRequest 1) (zlen sec) then false
  else
    match request with
    | c :: _ =>
      if zmem (Z.of_N c) (sw SW_IsAuthenticRequest 0 0) then true
      else if zmem (Z.of_N c) (sw SW_IsAuthenticRequest 0 1) then
        beq (H (firstn 4 request ++ zeros16 ++ skipn 20 request ++ sec))
            (firstn 16 (skipn 4 request))
      else false
    | [] => false
    end.
End Hash.

(* ---- Response (packet.go:72-80), New (packet.go:28-41) ---- *)
Definition response (p : packet) (c : Z) : packet :=
  mkpacket c (ident p) (auth p) (secret p) [].

(* New as a function of the 17 bytes rand.Read delivered *)
Definition new_packet (c : Z) (sec rnd : bytes) : res packet :=
  match rnd with
  | i :: rest => if length rest =? 16 then Ok (mkpacket c i rest sec []) else Panic
  | [] => Panic
  end.
