(* Model/Helpers.v — the generated helper families of dictionarygen/attributes.go,
   one generic semantics parameterised by a descriptor of the attribute (what
   its dictionary line says), built from the list operations (C09), the typed
   codecs (C10), the password hidings (C04, C11) and the vendor helpers (C14). *)
From Radius Require Import Base.Bytes Base.Guard Base.Res Gen.Consts Model.Attrs Model.Packet
  Model.Codecs Model.Passwords Model.Vendor.
Open Scope nat_scope.

Inductive hkind := KBytes | KConcat | KIP4 | KIP6 | KIFID | KPrefix | KDate | KInt (bytes_ : nat) | KByte.

Record hdesc := mkhdesc {
  h_type : Z;                       (* attribute number (X_Type), or the sub-attribute type for vendor attributes *)
  h_kind : hkind;
  h_tag : bool;                     (* has_tag *)
  h_enc : Z;                        (* 0, 1 = User-Password, 2 = Tunnel-Password *)
  h_size : option Z;                (* octets[n] *)
  h_vendor : option N               (* vendor id for vendor attributes *)
}.

(* a helper value, whatever the Go type *)
Record gv := mkgv { g_b : bytes; g_u : Z; g_mask : bytes }.
Definition gv_b (b : bytes) : gv := mkgv b 0 [].
Definition gv_u (u : Z) : gv := mkgv [] u [].

Definition E_noattr : N := 40.     (* radius.ErrNoAttribute *)

Section H.
Variable Hs : bytes -> bytes.      (* MD5 *)

(* genNewTunnelPassword: salt from rand.Read, salt[0] |= 1 << 7 *)
Definition forced_salt (salt : bytes) : bytes :=
  match salt with s0 :: r => N.lor s0 128 :: r | [] => [] end.
Definition tp_wrap (p : packet) (salt a : bytes) : res bytes :=
  new_tunnel_password Hs a (forced_salt salt) (secret p) (auth p).

(* value -> wire bytes of the attribute (before it is stored) *)
Definition h_encode (d : hdesc) (p : packet) (salt : bytes) (tag : N) (v : gv) : res bytes :=
  match h_kind d with
  | KBytes =>
    let size_ok := match h_size d with Some n => (zlen (g_b v) =? n)%Z | None => true end in
    if negb size_ok then Err E_invalid else
    bind (if (h_enc d =? 1)%Z then new_user_password Hs (g_b v) (secret p) (auth p)
          else if (h_enc d =? 2)%Z then tp_wrap p salt (g_b v)
          else new_bytes (g_b v)) (fun a =>
    if h_tag d && (tag <=? 31)%N then
      if 252 <? length a then Err E_invalid else Ok (tag :: a)
    else Ok a)
  | KConcat => Ok (g_b v)       (* chunked when stored *)
  | KIP4 => bind (new_ipaddr (g_b v)) (fun a => if (h_enc d =? 2)%Z then tp_wrap p salt a else Ok a)
  | KIP6 => bind (new_ipv6addr (g_b v)) (fun a => if (h_enc d =? 2)%Z then tp_wrap p salt a else Ok a)
  | KIFID => new_ifid (g_b v)
  | KPrefix => new_ipv6prefix (g_b v) (g_mask v)
  | KDate => new_date (g_u v)
  | KInt n =>
    let a := be_enc n (Z.to_N (g_u v)) in
    if h_tag d then
      if (g_u v >? 16777215)%Z then Err E_invalid
      else Ok ((if (1 <=? tag)%N && (tag <=? 31)%N then tag else 0%N) :: skipn 1 a)
    else if (h_enc d =? 2)%Z then tp_wrap p salt a
    else Ok a
  | KByte => Ok [Z.to_N (g_u v)]
  end.

(* 253-byte chunks of a concat value *)
Fixpoint chunks (fuel : nat) (v : bytes) : list bytes :=
  match fuel with
  | O => []
  | S f => match v with [] => [] | _ => firstn 253 v :: chunks f (skipn 253 v) end
  end.

(* store: X_Add / X_Set *)
Definition h_add (d : hdesc) (p : packet) (salt : bytes) (tag : N) (v : gv) : res packet :=
  bind (h_encode d p salt tag v) (fun a =>
  match h_vendor d with
  | Some vid => bind (add_vendor vid (Z.to_N (h_type d)) a (pattrs p)) (fun l => Ok (mkpacket (code p) (ident p) (auth p) (secret p) l))
  | None => Ok (mkpacket (code p) (ident p) (auth p) (secret p) (add (h_type d) a (pattrs p)))
  end).

Definition h_set (d : hdesc) (p : packet) (salt : bytes) (tag : N) (v : gv) : res packet :=
  bind (h_encode d p salt tag v) (fun a =>
  match h_kind d, h_vendor d with
  | KConcat, _ =>
    bind (del (h_type d) (pattrs p)) (fun l =>
    Ok (mkpacket (code p) (ident p) (auth p) (secret p)
          (l ++ map (fun c => mkavp (h_type d) c) (chunks (S (length a)) a))))
  | _, Some vid => bind (set_vendor vid (Z.to_N (h_type d)) a (pattrs p)) (fun l => Ok (mkpacket (code p) (ident p) (auth p) (secret p) l))
  | _, None => bind (set (h_type d) a (pattrs p)) (fun l => Ok (mkpacket (code p) (ident p) (auth p) (secret p) l))
  end).

Definition h_del (d : hdesc) (p : packet) : res packet :=
  match h_vendor d with
  | Some vid => Ok (mkpacket (code p) (ident p) (auth p) (secret p) (del_vendor vid (Z.to_N (h_type d)) (pattrs p)))
  | None => bind (del (h_type d) (pattrs p)) (fun l => Ok (mkpacket (code p) (ident p) (auth p) (secret p) l))
  end.

(* wire bytes -> (tag, value) *)
Definition h_decode (d : hdesc) (p q : packet) (a : bytes) : res (N * gv) :=
  match h_kind d with
  | KBytes | KConcat =>
    let '(tag, a') := match a with
                      | t :: r => if h_tag d && (t <=? 31)%N then (t, r) else (0%N, a)
                      | [] => (0%N, a)
                      end in
    bind (if (h_enc d =? 1)%Z then user_password Hs a' (secret p) (auth p)
          else if (h_enc d =? 2)%Z then bind (tunnel_password Hs a' (secret p) (auth q)) (fun r => Ok (fst r))
          else Ok a') (fun v =>
    match h_size d with
    | Some n => if negb (zlen v =? n)%Z then Err E_invalid else Ok (tag, gv_b v)
    | None => Ok (tag, gv_b v)
    end)
  | KIP4 => bind (if (h_enc d =? 2)%Z then bind (tunnel_password Hs a (secret p) (auth q)) (fun r => Ok (fst r)) else Ok a)
                 (fun a' => bind (ipaddr a') (fun v => Ok (0%N, gv_b v)))
  | KIP6 => bind (if (h_enc d =? 2)%Z then bind (tunnel_password Hs a (secret p) (auth q)) (fun r => Ok (fst r)) else Ok a)
                 (fun a' => bind (ipv6addr a') (fun v => Ok (0%N, gv_b v)))
  | KIFID => bind (ifid a) (fun v => Ok (0%N, gv_b v))
  | KPrefix => bind (ipv6prefix a) (fun r => Ok (0%N, mkgv (fst r) 0 (snd r)))
  | KDate => bind (date a) (fun u => Ok (0%N, gv_u u))
  | KInt n =>
    let '(tag, a') := match a with
                      | t :: r => if h_tag d && (t <=? 31)%N then (t, 0%N :: r) else (0%N, a)
                      | [] => (0%N, a)
                      end in
    bind (if negb (h_tag d) && (h_enc d =? 2)%Z then bind (tunnel_password Hs a' (secret p) (auth q)) (fun r => Ok (fst r)) else Ok a')
         (fun a'' => if negb (length a'' =? n) then Err E_invalid else Ok (tag, gv_u (Z.of_N (be_dec a''))))
  | KByte => match a with [b] => Ok (0%N, gv_u (Z.of_N b)) | _ => Err E_invalid end
  end.

(* the stored values the helper sees, in packet order *)
Definition h_raw (d : hdesc) (p : packet) : list bytes :=
  match h_vendor d with
  | Some vid => gets_vendor vid (Z.to_N (h_type d)) (pattrs p)
  | None => map aval (filter (fun a => (atype a =? h_type d)%Z) (pattrs p))
  end.

(* X_Lookup *)
Definition h_lookup (d : hdesc) (p q : packet) : res (N * gv) :=
  match h_kind d with
  | KConcat =>
    match h_raw d p with
    | [] => Err E_noattr
    | l => Ok (0%N, gv_b (concat l))
    end
  | _ =>
    match h_raw d p with
    | [] => Err E_noattr
    | a :: _ => h_decode d p q a
    end
  end.

(* X_Gets: stops at the first value that does not decode *)
Fixpoint decode_all (d : hdesc) (p q : packet) (l : list bytes) : res (list (N * gv)) :=
  match l with
  | [] => Ok []
  | a :: r => bind (h_decode d p q a) (fun x => bind (decode_all d p q r) (fun xs => Ok (x :: xs)))
  end.
Definition h_gets (d : hdesc) (p q : packet) : res (list (N * gv)) := decode_all d p q (h_raw d p).
End H.
