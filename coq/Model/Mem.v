(* Model/Mem.v — the readers of the API on an explicit memory (C13).
   A heap is a list of byte cells; a Go slice is (cell, offset, length).  A packet in
   memory holds slices; [pview] reads it back as the pure packet of Model/Packet.v.
   Every reader below is the pure function of the other models plus the allocation
   discipline of the Go code: where the code copies (make+copy, append to a fresh
   slice, string conversion) the model allocates a new cell; where it returns or
   keeps a slice of its argument the model returns that slice.  [legacy] selects the
   original tagged-integer getter, which cleared the tag byte through the packet's
   own slice. *)
From Radius Require Import Base.Bytes Base.Guard Base.Res Gen.Consts Model.Attrs Model.Packet
  Model.Codecs Model.Passwords Model.Vendor Model.Helpers.
Open Scope nat_scope.

Definition heap := list bytes.
Record slice := mkslice { s_addr : nat; s_off : nat; s_len : nat }.
Definition cell (h : heap) (a : nat) : bytes := nth a h [].
Definition rd (h : heap) (s : slice) : bytes := firstn (s_len s) (skipn (s_off s) (cell h (s_addr s))).
Definition alloc (h : heap) (b : bytes) : heap * slice := (h ++ [b], mkslice (length h) 0 (length b)).

Fixpoint set_nth {A} (n : nat) (x : A) (l : list A) : list A :=
  match l with
  | [] => []
  | y :: r => match n with O => x :: r | S n' => y :: set_nth n' x r end
  end.
(* s[i] = v *)
Definition wr (h : heap) (s : slice) (i : nat) (v : N) : heap :=
  if i <? s_len s then set_nth (s_addr s) (set_nth (s_off s + i) v (cell h (s_addr s))) h else h.

Record mpacket := mkmp { mp_code : Z; mp_ident : N; mp_auth : bytes; mp_secret : slice; mp_attrs : list (Z * slice) }.
Definition pview (h : heap) (m : mpacket) : packet :=
  mkpacket (mp_code m) (mp_ident m) (mp_auth m) (rd h (mp_secret m))
           (map (fun a => mkavp (fst a) (rd h (snd a))) (mp_attrs m)).

(* ---- Parse: every attribute value is copied out of the buffer ---- *)
Fixpoint alloc_all (h : heap) (l : list bytes) : heap * list slice :=
  match l with
  | [] => (h, [])
  | b :: r => let '(h1, s) := alloc h b in let '(h2, ss) := alloc_all h1 r in (h2, s :: ss)
  end.
Definition m_parse (h : heap) (b sec : slice) : heap * res mpacket :=
  match parse (rd h b) (rd h sec) with
  | Ok p => let '(h', ss) := alloc_all h (map aval (pattrs p)) in
            (h', Ok (mkmp (code p) (ident p) (auth p) sec (combine (map atype (pattrs p)) ss)))
  | Err e => (h, Err e) | Panic => (h, Panic) | OutOfFuel => (h, OutOfFuel)
  end.

(* ---- MarshalBinary / Encode: a fresh buffer ---- *)
Definition m_marshal (h : heap) (m : mpacket) : heap * res slice :=
  match marshal (pview h m) with
  | Ok w => let '(h', s) := alloc h w in (h', Ok s)
  | Err e => (h, Err e) | Panic => (h, Panic) | OutOfFuel => (h, OutOfFuel)
  end.

(* ---- Attributes.Lookup / Get: the packet's own slice ---- *)
Definition m_list_lookup (m : mpacket) (k : Z) : option slice :=
  match filter (fun a => (fst a =? k)%Z) (mp_attrs m) with a :: _ => Some (snd a) | [] => None end.

(* ---- typed decoders that return bytes: make + copy ---- *)
Definition m_copy_decoder (f : bytes -> res bytes) (h : heap) (s : slice) : heap * res slice :=
  match f (rd h s) with
  | Ok v => let '(h', s') := alloc h v in (h', Ok s')
  | Err e => (h, Err e) | Panic => (h, Panic) | OutOfFuel => (h, OutOfFuel)
  end.

(* ---- generated getters ---- *)
(* the slices a helper looks at: whole attribute values, or the value part of the matching
   sub-attributes inside Vendor-Specific attributes (slices of the packet's own memory) *)
Fixpoint sub_slices (typ : N) (base : slice) (off : nat) (subs : list (N * bytes)) : list slice :=
  match subs with
  | [] => []
  | (t, tlv) :: r =>
    (if (t =? typ)%N then [mkslice (s_addr base) (s_off base + off + 2) (length tlv - 2)] else [])
    ++ sub_slices typ base (off + length tlv) r
  end.
Definition m_raw (d : hdesc) (h : heap) (m : mpacket) : list slice :=
  match h_vendor d with
  | None => map snd (filter (fun a => (fst a =? h_type d)%Z) (mp_attrs m))
  | Some vid =>
    flat_map (fun a => match vsa_payload vid (mkavp (fst a) (rd h (snd a))) with
                       | Some payload => sub_slices (Z.to_N (h_type d)) (snd a) 4 (fst (subattrs payload))
                       | None => []
                       end) (mp_attrs m)
  end.

Definition is_tagged_int (d : hdesc) : bool := h_tag d && match h_kind d with KInt _ => true | _ => false end.

(* the value handed back: freshly allocated byte fields, scalars by value *)
Record mval := mkmval { v_tag : N; v_b : slice; v_u : Z; v_mask : slice }.
Definition give (h : heap) (x : N * gv) : heap * mval :=
  let '(h1, sb) := alloc h (g_b (snd x)) in
  let '(h2, sm) := alloc h1 (g_mask (snd x)) in
  (h2, mkmval (fst x) sb (g_u (snd x)) sm).

Section G.
Variable Hs : bytes -> bytes.
Variable legacy : bool.

(* the original tagged-integer branch: if len(a) >= 1 && a[0] <= 0x1F { tag = a[0]; a[0] = 0x00 } *)
Definition clear_tag (d : hdesc) (h : heap) (s : slice) : heap :=
  if legacy && is_tagged_int d then
    match rd h s with t :: _ => if (t <=? 31)%N then wr h s 0 0 else h | [] => h end
  else h.

Definition m_lookup (d : hdesc) (h : heap) (m : mpacket) (q : packet) : heap * res mval :=
  match m_raw d h m with
  | [] => (h, Err E_noattr)
  | s :: _ =>
    match h_kind d with
    | KConcat =>
      let '(h', v) := give h (0%N, gv_b (concat (map (rd h) (m_raw d h m)))) in (h', Ok v)
    | _ =>
      let r := h_decode Hs d (pview h m) q (rd h s) in
      let h1 := clear_tag d h s in
      match r with
      | Ok x => let '(h', v) := give h1 x in (h', Ok v)
      | Err e => (h1, Err e) | Panic => (h1, Panic) | OutOfFuel => (h1, OutOfFuel)
      end
    end
  end.

Fixpoint m_gets_loop (d : hdesc) (h : heap) (m : mpacket) (q : packet) (l : list slice) : heap * res (list mval) :=
  match l with
  | [] => (h, Ok [])
  | s :: r =>
    let x := h_decode Hs d (pview h m) q (rd h s) in
    let h1 := clear_tag d h s in
    match x with
    | Ok x =>
      let '(h2, v) := give h1 x in
      match m_gets_loop d h2 m q r with
      | (h3, Ok vs) => (h3, Ok (v :: vs))
      | (h3, e) => (h3, e)
      end
    | Err e => (h1, Err e) | Panic => (h1, Panic) | OutOfFuel => (h1, OutOfFuel)
    end
  end.
Definition m_gets (d : hdesc) (h : heap) (m : mpacket) (q : packet) : heap * res (list mval) :=
  m_gets_loop d h m q (m_raw d h m).
End G.

(* what the caller sees of a value *)
Definition val_view (h : heap) (v : mval) : N * gv := (v_tag v, mkgv (rd h (v_b v)) (v_u v) (rd h (v_mask v))).
