(* Model/ShutdownShape.v — the order of the synchronisation operations, on both sides.

   Source side: [interp] walks a synchronisation skeleton (Gen/Consts.v, Sync_PacketServer_*: the calls, atomic
   operations, map updates, channel operations and returns of Serve / Shutdown in source order, with their block
   structure) along one path — a list of decisions, one per [if] / [select] case met on the way — runs the
   deferred blocks at the return, and projects every token onto the vocabulary of the model.

   Model side: [mtrace] runs the step function of Model/Shutdown.v and names what every step did by looking at the
   difference of the two states (mutex taken/released, counter up/down, listener registered/unregistered/closed,
   context cancelled, goroutine started) and at whether its outcome depends on shutdownRequested.

   Properties/C07.v proves the two sequences equal on the paths that cover every statement of the skeletons: the
   steps of the model are the statements of the code, in the same order, inside the same critical sections. *)
From Coq Require Import String Ascii.
From Radius Require Import Base.Bytes Base.Res Model.Shutdown.
Open Scope nat_scope.
Open Scope string_scope.

(* ---------- source side ---------- *)

Definition last_is (c : ascii) (t : string) : bool :=
  match String.get (String.length t - 1) t with Some d => Ascii.eqb c d | None => false end.
Definition is_open (t : string) : bool := last_is "{"%char t.
Definition is_close (t : string) : bool := String.eqb t "}".
Definition drop (n : nat) (t : string) : string := String.substring n (String.length t - n) t.

(* [toks] follows an opening brace at depth [d]+1: the tokens of the block and what follows its closing brace *)
Fixpoint split_block (d : nat) (toks : list string) : list string * list string :=
  match toks with
  | [] => ([], [])
  | t :: r =>
    if is_close t then
      match d with
      | O => ([], r)
      | S d' => let (b, rest) := split_block d' r in (t :: b, rest)
      end
    else if is_open t then let (b, rest) := split_block (S d) r in (t :: b, rest)
    else let (b, rest) := split_block d r in (t :: b, rest)
  end.

(* [toks] starts with the opening brace of a block *)
Definition block_of (toks : list string) : list string * list string :=
  match toks with
  | t :: r => if String.eqb t "{" then split_block 0 r else ([], toks)
  | [] => ([], [])
  end.

Definition proj (t : string) : list string :=
  if String.eqb t "call:$r.mu.Lock" then ["lock"]
  else if String.eqb t "call:$r.mu.Unlock" then ["unlock"]
  else if String.eqb t "atomic.LoadInt32(&$r.shutdownRequested)" then ["load"]
  else if String.eqb t "atomic.CompareAndSwapInt32(&$r.shutdownRequested,0,1)" then ["cas"]
  else if String.eqb t "inc:$r.listeners" then ["reg"]
  else if String.eqb t "dec:$r.listeners" then ["unreg"]
  else if String.eqb t "call:$r.activeAdd" then ["add"]
  else if String.eqb t "call:$r.activeDone" then ["done"]
  else if String.eqb t "call:(rangekey $r.listeners).Close" then ["close"]
  else if String.eqb t "call:$r.ctxDone" then ["cancel"]
  else if String.eqb t "call:$0.ReadFrom" then ["read"]
  else if String.eqb t "call:$r.Handler.ServeRADIUS" then ["handler"]
  else if String.eqb t "select{" then ["select"]
  else if String.prefix "hook:" t then [t]
  (* anything else that touches the shared state of the model is not part of the model: keep it visible *)
  else if String.prefix "atomic." t then [t]
  else if String.prefix "close:" t then [t]
  else if String.prefix "send:" t then [t]
  else if String.prefix "set:$r." t then [t]
  else if String.prefix "call:$r.mu." t then [t]
  else if String.eqb t "else{" then ["unsupported:else"]
  else if String.eqb t "switch{" then ["unsupported:switch"]
  else [].

Definition proj_return (t : string) : list string :=
  if String.eqb t "return:" then [] else [t].

Section Interp.
Variable proj : string -> list string.     (* the vocabulary of the model the skeleton is compared with *)

Fixpoint interp (fuel : nat) (ds : list bool) (toks pend : list string) : list string :=
  match fuel with
  | O => ["out-of-fuel"]
  | S f =>
    match toks with
    | [] => match pend with [] => [] | _ => interp f ds pend [] end
    | t :: r =>
      if String.prefix "if:" t || String.prefix "case:" t then
        match ds with
        | [] => ["no-decision-left:" ++ t]
        | true :: ds' => interp f ds' (tl r) pend
        | false :: ds' => interp f ds' (snd (block_of r)) pend
        end
      else if String.eqb t "defer{" then
        let (b, rest) := split_block 0 r in interp f ds rest (b ++ pend)
      else if String.prefix "defer:" t then interp f ds r (drop 6 t :: pend)
      else if String.eqb t "go{" then "go" :: interp f ds (snd (split_block 0 r)) pend
      else if String.eqb t "func{" then interp f ds (snd (split_block 0 r)) pend
      else if String.prefix "for:" t then
        (* one iteration of the loop body *)
        interp f ds (fst (block_of r) ++ ["continue"]) pend
      else if String.prefix "return:" t then interp f ds pend [] ++ proj_return t
      else if String.eqb t "call:panic" then proj t ++ interp f ds pend []     (* the deferred calls run, nothing else *)
      else if String.eqb t "continue" then []
      else proj t ++ interp f ds r pend
    end
  end.

End Interp.

Definition path (ds : list bool) (toks : list string) : list string := interp proj 400 ds toks [].

(* every list of [n] decisions: a path never asks for more decisions than it has if/select tests on it, so the lists
   of a sufficient length reach every path through a skeleton (a path that ran out of decisions ends in a
   "no-decision-left" token, which is no trace of any model) *)
Fixpoint all_lists (n : nat) : list (list bool) :=
  match n with O => [[]] | S m => map (cons true) (all_lists m) ++ map (cons false) (all_lists m) end.
Fixpoint ls_eqb (a b : list string) : bool :=
  match a, b with
  | [], [] => true
  | x :: a', y :: b' => String.eqb x y && ls_eqb a' b'
  | _, _ => false
  end.
Lemma ls_eqb_eq a b : ls_eqb a b = true -> a = b.
Proof.
  revert b; induction a as [|x a IH]; intros [|y b] H; cbn in H; try discriminate; [reflexivity|].
  apply andb_prop in H; destruct H as [H1 H2]. apply String.eqb_eq in H1. subst. f_equal. apply IH, H2.
Qed.
(* every path of [n] decisions through [toks] is one of [traces] *)
Definition paths_within (pj : string -> list string) (n : nat) (toks : list string) (traces : list (list string)) : bool :=
  forallb (fun ds => existsb (ls_eqb (interp pj 400 ds toks [])) traces) (all_lists n).
Lemma paths_within_spec pj n toks traces :
  paths_within pj n toks traces = true ->
  forall ds, In ds (all_lists n) -> In (interp pj 400 ds toks []) traces.
Proof.
  unfold paths_within; intros H ds Hin.
  rewrite forallb_forall in H. specialize (H ds Hin). apply existsb_exists in H.
  destruct H as [t [Ht He]]. apply ls_eqb_eq in He. rewrite He. exact Ht.
Qed.
Lemma all_lists_complete n ds : List.length ds = n -> In ds (all_lists n).
Proof.
  revert ds; induction n as [|n IH]; intros [|b ds] H; cbn in H; try discriminate.
  - left; reflexivity.
  - cbn [all_lists]. apply in_or_app. destruct b; [left|right]; apply in_map; apply IH; congruence.
Qed.

(* ---------- lockset discipline on the source side ----------
   The walk without a projection keeps every token. [lockset] follows s.mu and the goroutines' requestsLock along it:
   no lock is taken twice or released when not held, every operation on s.listeners (and every call of initLocked,
   the only writer of the server's other fields) happens with s.mu held, every operation on the in-flight table
   with requestsLock held, and the path ends with both released. *)
Definition raw (t : string) : list string := [t].
Definition rawpath (ds : list bool) (toks : list string) : list string := interp raw 400 ds toks [].

Definition touches_server (t : string) : bool :=
  String.prefix "inc:$r.listeners" t || String.prefix "dec:$r.listeners" t || String.prefix "delete:$r.listeners" t ||
  String.prefix "index:$r.listeners" t || String.prefix "range:$r.listeners" t || String.prefix "set:$r." t ||
  String.eqb t "call:$r.initLocked".
Definition touches_table (t : string) : bool :=
  String.prefix "set:(val map[" t || String.prefix "delete:(val map[" t || String.prefix "index:(val map[" t.

Fixpoint lockset (mu rq : bool) (l : list string) : bool :=
  match l with
  | [] => negb mu && negb rq
  | t :: r =>
    if String.eqb t "call:$r.mu.Lock" then negb mu && lockset true rq r
    else if String.eqb t "call:$r.mu.Unlock" then mu && lockset false rq r
    else if String.eqb t "call:(var sync.Mutex).Lock" then negb rq && lockset mu true r
    else if String.eqb t "call:(var sync.Mutex).Unlock" then rq && lockset mu false r
    else if touches_server t then mu && lockset mu rq r
    else if touches_table t then rq && lockset mu rq r
    else lockset mu rq r
  end.

Definition lockset_within (n : nat) (toks : list string) : bool :=
  forallb (fun ds => lockset false false (rawpath ds toks)) (all_lists n).
Lemma lockset_within_spec n toks :
  lockset_within n toks = true -> forall ds, List.length ds = n -> lockset false false (rawpath ds toks) = true.
Proof.
  unfold lockset_within; intros H ds Hlen. rewrite forallb_forall in H. apply H.
  apply all_lists_complete, Hlen.
Qed.

(* the body of the first goroutine started *)
Fixpoint go_block (toks : list string) : list string :=
  match toks with
  | [] => []
  | t :: r => if String.eqb t "go{" then fst (split_block 0 r) else go_block r
  end.

(* ---------- model side ---------- *)

Definition b2z (b : bool) : Z := if b then 1%Z else 0%Z.
Definition rcode (r : sret) : Z := match r with RetShutdown => 1%Z | RetErr => 2%Z end.
Definition tcode (t : thread) : list Z :=
  match t with
  | TServe c pc => [1; Z.of_nat c;
      match pc with
      | S_start => 0 | S_locked => 1 | S_reg => 2 | S_unl => 3 | S_registered => 4 | S_reading => 5
      | S_exit r => 10 + rcode r | S_exit_locked r => 20 + rcode r | S_exit_unl r => 30 + rcode r
      | S_returned r => 40 + rcode r
      end]%Z
  | TDgram pc => [2; match pc with D_start d => 10 + b2z d | D_handler => 1 | D_exit => 2 | D_end => 3 end]%Z
  | TShut pc e => [3; b2z e;
      match pc with
      | H_start => 0 | H_locked => 1 | H_close => 2 | H_cancel => 3 | H_dec => 4 | H_unlock => 5
      | H_wait => 6 | H_select => 7 | H_ret_nil => 8 | H_ret_err => 9
      end]%Z
  end.

(* everything but the flag itself *)
Definition obs (s : state) : list Z :=
  (b2z (mu s) :: active s :: Z.of_nat (closes s) :: b2z (sdec s) :: b2z (cancelled s) :: map Z.of_nat (regs s))
  ++ (-1)%Z :: map Z.of_nat (closedc s) ++ (-1)%Z :: concat (map tcode (threads s)).

Fixpoint zs_eqb (a b : list Z) : bool :=
  match a, b with
  | [], [] => true
  | x :: a', y :: b' => Z.eqb x y && zs_eqb a' b'
  | _, _ => false
  end.

Definition set_shut (s : state) (b : bool) : state :=
  mkstate (mu s) b (active s) (closes s) (sdec s) (regs s) (closedc s) (cancelled s) (threads s).

Definition oobs (o : option state) : list Z := match o with Some s => 1%Z :: obs s | None => [0%Z] end.

(* the outcome of the step depends on shutdownRequested *)
Definition reads_shut (s : state) (i : nat) (a : action) : bool :=
  negb (zs_eqb (oobs (step false (set_shut s true) i a)) (oobs (step false (set_shut s false) i a))).

Definition step_ops (s s' : state) (i : nat) (a : action) : list string :=
  (match a with ARead_datagram _ | ARead_error _ => ["read"] | _ => [] end) ++
  (if negb (mu s) && mu s' then ["lock"] else []) ++
  (if reads_shut s i a then
     match nth_error (threads s) i with Some (TShut _ _) => ["cas"] | _ => ["load"] end
   else []) ++
  (if Nat.ltb (List.length (regs s)) (List.length (regs s')) then ["reg"] else []) ++
  (if Nat.ltb (List.length (regs s')) (List.length (regs s)) then ["unreg"] else []) ++
  (if Nat.ltb (List.length (closedc s)) (List.length (closedc s')) then ["close"] else []) ++
  (if negb (cancelled s) && cancelled s' then ["cancel"] else []) ++
  (if (active s <? active s')%Z then ["add"] else []) ++
  (if (active s' <? active s)%Z then ["done"] else []) ++
  (if Nat.ltb (List.length (threads s)) (List.length (threads s')) then ["go"] else []) ++
  (if mu s && negb (mu s') then ["unlock"] else []) ++
  match nth_error (threads s) i, nth_error (threads s') i with
  | Some t, Some t' =>
    if zs_eqb (tcode t) (tcode t') then [] else
    match t' with
    | TServe _ S_registered => ["hook:serve.registered"]
    | TServe _ (S_returned RetShutdown) => ["return:ErrServerShutdown"]
    | TServe _ (S_returned RetErr) => ["return:err"]
    | TDgram D_handler => ["handler"]
    | TDgram D_exit => ["hook:datagram.done"]
    | TShut H_wait _ => ["hook:shutdown.waiting"]
    | TShut H_select _ => match t with TShut H_select _ => [] | _ => ["select"] end
    | TShut H_ret_nil _ => ["return:nil"]
    | TShut H_ret_err _ => ["return:$0.Err()"]
    | _ => []
    end
  | _, _ => []
  end.

(* events: thread, action, and whether the step is recorded (steps of other threads only set the scene) *)
Fixpoint mtrace (s : state) (evs : list (nat * action * bool)) : list string :=
  match evs with
  | [] => []
  | (i, a, rec) :: r =>
    match step false s i a with
    | None => ["not-enabled"]
    | Some s' => (if rec then step_ops s s' i a else []) ++ mtrace s' r
    end
  end.

Definition runs (i : nat) (n : nat) (rec : bool) : list (nat * action * bool) := repeat (i, ARun, rec) n.

(* a state with thread 0 = a Serve call on listener 7 blocked in ReadFrom *)
Definition serving : state := run false init (ESpawnServe 7 :: repeat (EStep 0 ARun) 5).
