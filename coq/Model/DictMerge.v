(* Model/DictMerge.v — dictionary.Merge (dictionary/helpers.go:5-80) on a small
   store: a Dictionary holds pointers to Vendor structs, so vendors live in a heap
   (list of cells) and dictionaries hold indices.  Attribute and Value structs are
   never written by Merge and are kept as values.
   [legacy = true] is the original assembly (append through the first input's
   *Vendor); [legacy = false] the repaired one (combine into a fresh Vendor). *)
From Radius Require Import Base.Bytes Base.Res Model.Dict.
Open Scope nat_scope.

Definition heap := list vendor.
Record pdict := mkpdict { p_attrs : list attr; p_values : list value; p_vendors : list nat }.  (* pointers *)

Definition deref (h : heap) (p : nat) : vendor := nth p h (mkvendor [] 0 None [] []).
Definition view (h : heap) (d : pdict) : dict := mkdict (p_attrs d) (p_values d) (map (deref h) (p_vendors d)).

(* VendorByName / VendorByNumber on a list of pointers: the pointer found *)
Fixpoint ptr_by_name (h : heap) (ps : list nat) (n : str) : option nat :=
  match ps with [] => None | p :: r => if beq (vn_name (deref h p)) n then Some p else ptr_by_name h r n end.
Fixpoint ptr_by_number (h : heap) (ps : list nat) (k : Z) : option nat :=
  match ps with [] => None | p :: r => if (vn_number (deref h p) =? k)%Z then Some p else ptr_by_number h r k end.
Fixpoint index_by_number (h : heap) (ps : list nat) (k : Z) (i : nat) : option nat :=
  match ps with [] => None | p :: r => if (vn_number (deref h p) =? k)%Z then Some i else index_by_number h r k (S i) end.

Definition opt_nat_eqb (a b : option nat) : bool :=
  match a, b with Some x, Some y => x =? y | None, None => true | _, _ => false end.

Definition attr_clash (existing : list attr) (a : attr) : bool :=
  match attr_by_name existing (a_name a) with
  | Some _ => true
  | None => match attr_by_oid existing (a_oid a) with Some _ => true | None => false end
  end.

Definition E_merge_attr : N := 31.      (* duplicate attribute *)
Definition E_merge_vendor : N := 32.    (* conflicting vendor *)
Definition E_merge_vattr : N := 33.     (* duplicate vendor attribute *)

(* the two checking loops *)
Definition check_attrs (d1 d2 : pdict) : bool := existsb (attr_clash (p_attrs d1)) (p_attrs d2).
Fixpoint check_vendors (h : heap) (d1 : pdict) (vs : list nat) : option N :=
  match vs with
  | [] => None
  | p :: r =>
    let v := deref h p in
    let bn := ptr_by_name h (p_vendors d1) (vn_name v) in
    let bk := ptr_by_number h (p_vendors d1) (vn_number v) in
    if negb (opt_nat_eqb bn bk) then Some E_merge_vendor else
    match bn with
    | None => check_vendors h d1 r
    | Some q => if existsb (attr_clash (vn_attrs (deref h q))) (vn_attrs v) then Some E_merge_vattr
                else check_vendors h d1 r
    end
  end.

Section M.
Variable legacy : bool.

(* the assembly loop over d2.Vendors; [ps] = newDict.Vendors so far *)
Fixpoint assemble (h : heap) (ps : list nat) (vs : list nat) : heap * list nat :=
  match vs with
  | [] => (h, ps)
  | p :: r =>
    let v := deref h p in
    match index_by_number h ps (vn_number v) 0 with
    | Some i =>
      let q := nth i ps 0 in
      let e := deref h q in
      let combined := mkvendor (vn_name e) (vn_number e) (vn_format e) (vn_attrs e ++ vn_attrs v) (vn_values e ++ vn_values v) in
      if legacy then assemble (update_at q combined h) ps r            (* write through the existing *Vendor *)
      else assemble (h ++ [combined]) (update_at i (length h) ps) r   (* fresh Vendor, pointer replaced in the result only *)
    | None => assemble h (ps ++ [p]) r
    end
  end.

Definition merge (h : heap) (d1 d2 : pdict) : res (heap * pdict) :=
  if check_attrs d1 d2 then Err E_merge_attr else
  match check_vendors h d1 (p_vendors d2) with
  | Some e => Err e
  | None =>
    let '(h', ps) := assemble h (p_vendors d1) (p_vendors d2) in
    Ok (h', mkpdict (p_attrs d1 ++ p_attrs d2) (p_values d1 ++ p_values d2) ps)
  end.
End M.

(* load a parsed dictionary into the heap *)
Definition load (h : heap) (d : dict) : heap * pdict :=
  (h ++ d_vendors d, mkpdict (d_attrs d) (d_values d) (seq (length h) (length (d_vendors d)))).
