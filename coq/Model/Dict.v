(* Model/Dict.v — dictionary/parser.go and dictionary/helpers.go transcribed.
   Go strings are byte strings (list N).  Restrictions of the model, checked by
   the correspondence runs only on inputs inside them (see DESIGN.md):
   strings.Fields / strings.EqualFold are modelled for texts whose white space
   and letters are ASCII; OID components and numbers are unbounded Z (Go's int
   would wrap after 18 digits). *)
From Coq Require Import String Ascii.
From Radius Require Import Base.Bytes Base.Guard Base.Res Gen.Consts.
Open Scope list_scope.
Open Scope nat_scope.

Definition str := bytes.
Definition s2b (s : string) : str := map N_of_ascii (list_ascii_of_string s).

(* ---------- data ---------- *)
Record attr := mkattr {
  a_name : str; a_oid : list Z; a_type : Z;
  a_size : option Z; a_encrypt : option Z; a_has_tag : bool; a_concat : bool }.
Record value := mkvalue { v_attr : str; v_name : str; v_number : Z }.
Record vendor := mkvendor {
  vn_name : str; vn_number : Z; vn_format : option (Z * Z);
  vn_attrs : list attr; vn_values : list value }.
Record dict := mkdict { d_attrs : list attr; d_values : list value; d_vendors : list vendor }.
Definition empty_dict : dict := mkdict [] [] [].

(* error classes *)
Definition PE_oid : N := 1.          Definition PE_type : N := 2.
Definition PE_dupflag : N := 3.      Definition PE_enctype : N := 4.
Definition PE_flag : N := 5.         Definition PE_dupattr : N := 6.
Definition PE_valnum : N := 7.       Definition PE_vendnum : N := 8.
Definition PE_vendfmt : N := 9.      Definition PE_dupvendor : N := 10.
Definition PE_nested : N := 11.      Definition PE_unkvendor : N := 12.
Definition PE_unmatched : N := 13.   Definition PE_badend : N := 14.
Definition PE_incl_in_block : N := 15. Definition PE_open : N := 16.
Definition PE_recursive : N := 17.   Definition PE_unkline : N := 18.
Definition PE_unclosed : N := 19.    Definition PE_scan : N := 20.

Inductive perr :=
| ParseErr (class : N) (file : str) (line : nat)    (* *ParseError{Inner, File, Line} *)
| PlainErr (class : N).                              (* scanner error: returned unwrapped *)

Inductive pres (A : Type) := POk (a : A) | PFail (e : perr) | PFuel.
Arguments POk {A}. Arguments PFail {A}. Arguments PFuel {A}.

(* List.rev is quadratic; the lexers use the linear reversal *)
Definition frev {A} (l : list A) : list A := rev_append l [].
Lemma frev_rev {A} (l : list A) : frev l = List.rev l.
Proof. unfold frev. symmetry. apply rev_alt. Qed.

(* ---------- lexing ---------- *)
Definition is_space (b : N) : bool :=
  (b =? 9)%N || (b =? 10)%N || (b =? 11)%N || (b =? 12)%N || (b =? 13)%N || (b =? 32)%N.

(* strings.Fields *)
Fixpoint fields_acc (cur : list N) (s : bytes) : list str :=
  match s with
  | [] => match cur with [] => [] | _ => [frev cur] end
  | b :: r => if is_space b then match cur with [] => fields_acc [] r | _ => frev cur :: fields_acc [] r end
              else fields_acc (b :: cur) r
  end.
Definition fields (s : bytes) : list str := fields_acc [] s.

(* bufio.ScanLines: split at '\n', drop one trailing '\r'; a final line without
   newline is delivered when non-empty *)
Definition drop_cr (l : bytes) : bytes :=
  match frev l with 13%N :: r => frev r | _ => l end.
Fixpoint lines_acc (cur : list N) (s : bytes) : list bytes :=
  match s with
  | [] => match cur with [] => [] | _ => [drop_cr (frev cur)] end
  | b :: r => if (b =? 10)%N then drop_cr (frev cur) :: lines_acc [] r else lines_acc (b :: cur) r
  end.
Definition scan_lines (s : bytes) : list bytes := lines_acc [] s.
Definition max_token : N := 65536.   (* bufio.MaxScanTokenSize: a line this long makes Scan fail *)

(* strings.IndexByte(line, '#') cut *)
Fixpoint strip_comment (l : bytes) : bytes :=
  match l with [] => [] | b :: r => if (b =? 35)%N then [] else b :: strip_comment r end.

(* ---------- numbers ---------- *)
Definition digit_val (b : N) : option Z :=
  if (48 <=? b)%N && (b <=? 57)%N then Some (Z.of_N b - 48)%Z
  else if (97 <=? b)%N && (b <=? 102)%N then Some (Z.of_N b - 87)%Z
  else if (65 <=? b)%N && (b <=? 70)%N then Some (Z.of_N b - 55)%Z
  else None.
Fixpoint digits_val (base : Z) (acc : Z) (s : bytes) : option Z :=
  match s with
  | [] => Some acc
  | b :: r => match digit_val b with
              | Some d => if (d <? base)%Z then digits_val base (acc * base + d)%Z r else None
              | None => None
              end
  end.
(* strconv.ParseUint(s, base, 32) *)
Definition parse_uint32 (base : Z) (s : bytes) : option Z :=
  match s with
  | [] => None
  | _ => match digits_val base 0 s with
         | Some v => if (v <? 4294967296)%Z then Some v else None
         | None => None
         end
  end.
(* strconv.ParseInt(s, 10, 32) *)
Definition int32_body (neg : bool) (body : bytes) : option Z :=
  match body with
  | [] => None
  | _ => match digits_val 10 0 body with
         | Some v => if neg then (if (v <=? 2147483648)%Z then Some (- v)%Z else None)
                     else (if (v <? 2147483648)%Z then Some v else None)
         | None => None
         end
  end.
Definition parse_int32 (s : bytes) : option Z :=
  match s with
  | [] => None
  | b :: r => if (b =? 43)%N then int32_body false r         (* '+' *)
              else if (b =? 45)%N then int32_body true r     (* '-' *)
              else int32_body false s
  end.

(* parseOID; a component that does not fit Go's int (64 bits on the platforms this model describes) makes the
   whole number invalid *)
Definition max_int : Z := 9223372036854775807.
Fixpoint parse_oid_aux (first : bool) (acc : list Z) (s : bytes) : option (list Z) :=   (* acc reversed *)
  match s with
  | [] => Some (frev acc)
  | b :: r =>
    if (b =? 46)%N then
      if first then None else
      match r with
      | n :: _ => if (48 <=? n)%N && (n <=? 57)%N then parse_oid_aux false (0%Z :: acc) r else None
      | [] => None
      end
    else if (48 <=? b)%N && (b <=? 57)%N then
      let acc' := if first then [0%Z] else acc in
      match acc' with
      | x :: t => if (x >? (max_int - (Z.of_N b - 48)) / 10)%Z then None
                  else parse_oid_aux false ((x * 10 + (Z.of_N b - 48))%Z :: t) r
      | [] => None
      end
    else None
  end.
Definition parse_oid (s : bytes) : list Z :=
  match parse_oid_aux true [] s with Some o => o | None => [] end.

(* ---------- ATTRIBUTE ---------- *)
Definition lower (b : N) : N := if (65 <=? b)%N && (b <=? 90)%N then (b + 32)%N else b.
Definition equal_fold (a b : bytes) : bool := beq (map lower a) (map lower b).

Fixpoint lookup_type (tbl : list (string * Z)) (t : bytes) : option Z :=
  match tbl with
  | [] => None
  | (n, v) :: r => if equal_fold t (s2b n) then Some v else lookup_type r t
  end.

Fixpoint split_on (sep : N) (cur : list N) (s : bytes) : list bytes :=   (* strings.Split(s, ",") *)
  match s with
  | [] => [frev cur]
  | b :: r => if (b =? sep)%N then frev cur :: split_on sep [] r else split_on sep (b :: cur) r
  end.

Definition has_prefix (p s : bytes) : bool := beq (firstn (length p) s) p.

Fixpoint apply_flags (fl : list bytes) (a : attr) : res attr :=
  match fl with
  | [] => Ok a
  | f :: r =>
    if has_prefix (s2b "encrypt=") f then
      match a_encrypt a with
      | Some _ => Err PE_dupflag
      | None => match parse_int32 (skipn 8 f) with
                | Some v => apply_flags r (mkattr (a_name a) (a_oid a) (a_type a) (a_size a) (Some v) (a_has_tag a) (a_concat a))
                | None => Err PE_enctype
                end
      end
    else if beq f (s2b "has_tag") then
      if a_has_tag a then Err PE_dupflag
      else apply_flags r (mkattr (a_name a) (a_oid a) (a_type a) (a_size a) (a_encrypt a) true (a_concat a))
    else if beq f (s2b "concat") then
      if a_concat a then Err PE_dupflag
      else apply_flags r (mkattr (a_name a) (a_oid a) (a_type a) (a_size a) (a_encrypt a) (a_has_tag a) true)
    else Err PE_flag
  end.

(* parseAttribute(f), 4 <= len(f) <= 5 *)
Definition parse_attribute (f1 f2 f3 : bytes) (f4 : option bytes) : res attr :=
  let oid := parse_oid f2 in
  match oid with
  | [] => Err PE_oid
  | _ =>
    let typ_size :=
      if equal_fold f3 (s2b "string") then Some (K_dictionary_AttributeString, None)
      else if equal_fold f3 (s2b "octets") then Some (K_dictionary_AttributeOctets, None)
      else if holds (gd G_dictionary_Parser_parseAttribute 1) (Z.of_nat (length f3))
              && equal_fold (firstn 7 f3) (s2b "octets[")
              && beq (skipn (length f3 - 1) f3) [93%N]
      then match parse_int32 (skipn 7 (firstn (length f3 - 1) f3)) with
           | Some n => Some (K_dictionary_AttributeOctets, Some n)
           | None => None
           end
      else match lookup_type T_parser_types f3 with Some t => Some (t, None) | None => None end in
    match typ_size with
    | None => Err PE_type
    | Some (t, sz) =>
      let a := mkattr f1 oid t sz None false false in
      match f4 with
      | Some fl => apply_flags (split_on 44 [] fl) a
      | None => Ok a
      end
    end
  end.

(* parseValue *)
Definition parse_value (f1 f2 f3 : bytes) : res value :=
  let n := if has_prefix (s2b "0x") f3 then parse_uint32 16 (skipn 2 f3) else parse_uint32 10 f3 in
  match n with Some v => Ok (mkvalue f1 f2 v) | None => Err PE_valnum end.

(* parseVendor *)
Definition parse_vendor (f1 f2 : bytes) (f3 : option bytes) : res vendor :=
  match parse_int32 f2 with
  | None => Err PE_vendnum
  | Some n =>
    match f3 with
    | None => Ok (mkvendor f1 n None [] [])
    | Some fm =>
      let g := G_dictionary_Parser_parseVendor in
      let c7 := Z.of_N (nth 7 fm 0%N) in let c8 := Z.of_N (nth 8 fm 0%N) in let c9 := Z.of_N (nth 9 fm 0%N) in
      if negb (has_prefix (s2b "format=") fm) || holds (gd g 1) (Z.of_nat (length fm)) then Err PE_vendfmt
      else if holds (gd g 2) c8 || (holds (gd g 3) c7 && holds (gd g 4) c7 && holds (gd g 5) c7)
              || (holds (gd g 6) c9 || holds (gd g 7) c9) then Err PE_vendfmt
      else Ok (mkvendor f1 n (Some (c7 - 48, c9 - 48)%Z) [] [])
    end
  end.

(* ---------- helpers.go look-ups ---------- *)
Definition oid_eqb (a b : list Z) : bool := (length a =? length b) && forallb (fun p => (fst p =? snd p)%Z) (combine a b).
Fixpoint attr_by_name (l : list attr) (n : str) : option attr :=
  match l with [] => None | a :: r => if beq (a_name a) n then Some a else attr_by_name r n end.
Fixpoint attr_by_oid (l : list attr) (o : list Z) : option attr :=
  match l with [] => None | a :: r => if oid_eqb (a_oid a) o then Some a else attr_by_oid r o end.
Fixpoint vendor_index_by_name (l : list vendor) (n : str) (i : nat) : option nat :=
  match l with [] => None | v :: r => if beq (vn_name v) n then Some i else vendor_index_by_name r n (S i) end.
Fixpoint vendor_index_by_number (l : list vendor) (n : Z) (i : nat) : option nat :=
  match l with [] => None | v :: r => if (vn_number v =? n)%Z then Some i else vendor_index_by_number r n (S i) end.
Definition vendor_by_name_or_number (l : list vendor) (n : str) (k : Z) : bool :=
  existsb (fun v => beq (vn_name v) n || (vn_number v =? k)%Z) l.

Definition opt_z_eqb (a b : option Z) : bool :=
  match a, b with Some x, Some y => (x =? y)%Z | None, None => true | _, _ => false end.
Definition attr_equals (a b : attr) : bool :=
  beq (a_name a) (a_name b) && oid_eqb (a_oid a) (a_oid b) && (a_type a =? a_type b)%Z &&
  opt_z_eqb (a_size a) (a_size b) && opt_z_eqb (a_encrypt a) (a_encrypt b) &&
  Bool.eqb (a_has_tag a) (a_has_tag b) && Bool.eqb (a_concat a) (a_concat b).

(* ---------- the line loop ---------- *)
Definition upd_vendor (d : dict) (i : nat) (f : vendor -> vendor) : dict :=
  match nth_error (d_vendors d) i with
  | Some v => mkdict (d_attrs d) (d_values d) (update_at i (f v) (d_vendors d))
  | None => d
  end.

Inductive line_act :=
| LSkip                      (* blank / comment / whitespace-only *)
| LAttr (f1 f2 f3 : bytes) (f4 : option bytes)
| LValue (f1 f2 f3 : bytes)
| LVendor (f1 f2 : bytes) (f3 : option bytes)
| LBegin (n : bytes) | LEnd (n : bytes) | LInclude (n : bytes)
| LUnknown.

Definition classify_line (line : bytes) : line_act :=
  let l := strip_comment line in
  match l with
  | [] => LSkip
  | _ =>
    match fields l with
    | [] => LSkip
    | [k; a; b; c] =>
      if beq k (s2b "ATTRIBUTE") then LAttr a b c None
      else if beq k (s2b "VALUE") then LValue a b c
      else if beq k (s2b "VENDOR") then LVendor a b (Some c)
      else LUnknown
    | [k; a; b; c; e] => if beq k (s2b "ATTRIBUTE") then LAttr a b c (Some e) else LUnknown
    | [k; a; b] => if beq k (s2b "VENDOR") then LVendor a b None else LUnknown
    | [k; a] =>
      if beq k (s2b "BEGIN-VENDOR") then LBegin a
      else if beq k (s2b "END-VENDOR") then LEnd a
      else if beq k (s2b "$INCLUDE") then LInclude a
      else LUnknown
    | _ => LUnknown
    end
  end.

Inductive ioev := EvOpen (n : str) | EvClose (n : str) | EvReclose (n : str).   (* Reclose: Close on an already closed file (the deferred Close after the explicit one) *)

Section Parser.
Variable ignore_identical : bool.                         (* p.IgnoreIdenticalAttributes *)
Variable opener : str -> option (str * bytes).            (* Opener.OpenFile: canonical name, contents *)

(* one non-include line: new dictionary and vendor-block state, or an error class *)
Definition apply_simple (d : dict) (vb : option nat) (act : line_act) : res (dict * option nat) :=
  match act with
  | LSkip => Ok (d, vb)
  | LAttr f1 f2 f3 f4 =>
    match parse_attribute f1 f2 f3 f4 with
    | Ok a =>
      let scope := match vb with
                   | None => d_attrs d
                   | Some i => match nth_error (d_vendors d) i with Some v => vn_attrs v | None => [] end
                   end in
      match attr_by_name scope (a_name a) with
      | Some ex => if ignore_identical && attr_equals a ex then Ok (d, vb) else Err PE_dupattr
      | None =>
        match vb with
        | None => Ok (mkdict (d_attrs d ++ [a]) (d_values d) (d_vendors d), vb)
        | Some i => Ok (upd_vendor d i (fun v => mkvendor (vn_name v) (vn_number v) (vn_format v) (vn_attrs v ++ [a]) (vn_values v)), vb)
        end
      end
    | Err e => Err e | Panic => Panic | OutOfFuel => OutOfFuel
    end
  | LValue f1 f2 f3 =>
    match parse_value f1 f2 f3 with
    | Ok v =>
      match vb with
      | None => Ok (mkdict (d_attrs d) (d_values d ++ [v]) (d_vendors d), vb)
      | Some i => Ok (upd_vendor d i (fun w => mkvendor (vn_name w) (vn_number w) (vn_format w) (vn_attrs w) (vn_values w ++ [v])), vb)
      end
    | Err e => Err e | Panic => Panic | OutOfFuel => OutOfFuel
    end
  | LVendor f1 f2 f3 =>
    match parse_vendor f1 f2 f3 with
    | Ok v => if vendor_by_name_or_number (d_vendors d) (vn_name v) (vn_number v) then Err PE_dupvendor
              else Ok (mkdict (d_attrs d) (d_values d) (d_vendors d ++ [v]), vb)
    | Err e => Err e | Panic => Panic | OutOfFuel => OutOfFuel
    end
  | LBegin n =>
    match vb with
    | Some _ => Err PE_nested
    | None => match vendor_index_by_name (d_vendors d) n 0 with
              | Some i => Ok (d, Some i)
              | None => Err PE_unkvendor
              end
    end
  | LEnd n =>
    match vb with
    | None => Err PE_unmatched
    | Some i => match nth_error (d_vendors d) i with
                | Some v => if beq (vn_name v) n then Ok (d, None) else Err PE_badend
                | None => Panic
                end
    end
  | LInclude _ => Panic     (* handled by the caller *)
  | LUnknown => Err PE_unkline
  end.

Definition too_long (l : bytes) : bool := (max_token <=? N.of_nat (length l))%N.

(* the line loop of p.parse; [recur] parses an included file (the recursive call) *)
Definition recur_t := list str -> str -> bytes -> dict -> list ioev -> pres dict * list ioev.

Fixpoint parse_lines (recur : recur_t) (path : list str) (fname : str)
         (ls : list bytes) (lineNo : nat) (vb : option nat) (d : dict) (tr : list ioev)
  : pres dict * list ioev :=
  match ls with
  | [] =>
    match vb with
    | Some _ => (PFail (ParseErr PE_unclosed fname (lineNo - 1)), tr)
    | None => (POk d, tr)
    end
  | l :: rest =>
    if too_long l then (PFail (PlainErr PE_scan), tr) else
    match classify_line l with
    | LInclude n =>
      match vb with
      | Some _ => (PFail (ParseErr PE_incl_in_block fname lineNo), tr)
      | None =>
        match opener n with
        | None => (PFail (ParseErr PE_open fname lineNo), tr)
        | Some (cn, body) =>
          let tr1 := tr ++ [EvOpen cn] in
          (* parsedFiles[incFileName] already present: the file is on the include path *)
          if existsb (beq cn) path then (PFail (ParseErr PE_recursive fname lineNo), tr1 ++ [EvClose cn])
          else
            match recur (cn :: path) cn body d tr1 with
            | (POk d', tr2) => parse_lines recur path fname rest (S lineNo) None d' (tr2 ++ [EvClose cn; EvReclose cn])
            | (PFail e, tr2) => (PFail e, tr2 ++ [EvClose cn])
            | (PFuel, tr2) => (PFuel, tr2)
            end
        end
      end
    | act =>
      match apply_simple d vb act with
      | Ok (d', vb') => parse_lines recur path fname rest (S lineNo) vb' d' tr
      | Err e => (PFail (ParseErr e fname lineNo), tr)
      | _ => (PFail (PlainErr 99), tr)
      end
    end
  end.

(* p.parse(dict, parsedFiles, f): [path] is the set parsedFiles (names on the include path) *)
Fixpoint parse_file (fuel : nat) : recur_t :=
  match fuel with
  | O => fun _ _ _ _ tr => (PFuel, tr)
  | S fu => fun path fname text d tr => parse_lines (parse_file fu) path fname (scan_lines text) 1 None d tr
  end.

(* Parser.Parse(f) for a root file with the given name and contents *)
Definition parse_root (fuel : nat) (fname : str) (text : bytes) : pres dict * list ioev :=
  parse_file fuel [fname] fname text empty_dict [].
End Parser.
