(* Model/ExchangeShape.v — the order of the operations of Client.Exchange (client.go), on both sides, in the manner of
   Model/ShutdownShape.v: [cpath] walks the skeleton read from the working tree (Gen/Consts.v, Sync_Client_Exchange)
   along one path and projects it onto the vocabulary of Model/Exchange.v; [xtrace] runs [xstep] and names what each
   step did from the difference of the two states. *)
From Coq Require Import String Ascii.
From Radius Require Import Base.Bytes Base.Guard Base.Res Gen.Consts Model.Attrs Model.Packet Model.Client Model.Exchange Model.ShutdownShape.
Open Scope nat_scope.
Open Scope string_scope.
Open Scope list_scope.

Definition cproj (t : string) : list string :=
  if String.eqb t "call:$1.Encode" then ["encode"]
  else if String.eqb t "call:$r.Dialer.DialContext" then ["dial"]
  else if String.eqb t "call:($r.Dialer.DialContext#0).Write" then ["write"]
  else if String.eqb t "call:($r.Dialer.DialContext#0).Read" then ["read"]
  else if String.eqb t "call:($r.Dialer.DialContext#0).Close" then ["close"]
  else if String.eqb t "call:(context.WithCancel#1)" then ["cancel"]
  else if String.eqb t "call:(time.NewTicker).Stop" then ["stop"]
  else if String.eqb t "inc:(var int)" then ["count"]
  else if String.eqb t "call:panic" then ["panic"]
  (* anything else that could touch the socket, the ticker or shared state stays visible *)
  else if String.prefix "call:($r.Dialer.DialContext#0)." t then [t]
  else if String.prefix "call:(time.NewTicker)." t then [t]
  else if String.prefix "atomic." t then [t]
  else if String.prefix "close:" t then [t]
  else if String.prefix "send:" t then [t]
  else if String.prefix "set:$r." t then [t]
  else if String.prefix "set:$1." t then [t]
  else if String.prefix "dec:" t then [t]
  else if String.eqb t "else{" then ["unsupported:else"]
  else if String.eqb t "switch{" then ["unsupported:switch"]
  else [].

Definition cpath (ds : list bool) (toks : list string) : list string := interp cproj 400 ds toks [].

(* ---------- model side ---------- *)
Section S.
Variable H : bytes -> bytes.
Variable retry max_errors : Z.
Variable skip_verify : bool.
Variable request : packet.

Definition ret_label (r : xret) : string :=
  match r with
  | XPacket _ => "return:(Parse#0),nil"
  | XErr e => if (e =? 9)%N then "return:nil,&NonAuthenticResponseError{}" else "return:nil,err"
  | XCtxErr => "return:nil,$0.Err()"
  | XNetErr => "return:nil,err"
  end.

Definition xops (s s' : xstate) (e : xevent) : list string :=
  (match xmain s, e with
   | M_start, XStep => ["encode"]
   | M_dialled, XStep | M_dialled, XDialFail => ["dial"]
   | M_reading _, XDatagram _ | M_reading _, XReadErr => if conn_closed s then [] else ["read"]
   | M_reading _, XStep => if conn_closed s then ["read"] else []
   | _, _ => []
   end) ++
  (match xmain s, xmain s' with
   | M_reading c, M_reading c' => if (c <? c')%Z then ["count"] else []
   | M_reading _, M_returned (XErr _) => ["count"]
   | _, _ => []
   end) ++
  (if Nat.ltb (List.length (sent s)) (List.length (sent s')) then ["write"] else []) ++
  (match xhelper s, xhelper s' with Hp_none, Hp_running => ["go"] | _, _ => [] end) ++
  (match xmain s, xmain s' with
   | M_returned _, _ => []
   | _, M_returned r =>
     (* the deferred calls, last registered first *)
     (match xmain s with
      | M_reading _ => (if negb (ticker_stopped s) && ticker_stopped s' then ["stop"] else []) ++ ["cancel"; "close"]
      | _ => []        (* before the dial has succeeded nothing is deferred *)
      end) ++
     [ret_label r]
   | _, _ =>
     match xhelper s, xhelper s' with
     | Hp_running, Hp_exited => ["close"]
     | _, _ => []
     end
   end).

Fixpoint xtrace (s : xstate) (es : list (xevent * bool)) : list string :=
  match es with
  | [] => []
  | (e, rec) :: r =>
    let s' := xstep H retry max_errors skip_verify request s e in
    (if rec then xops s s' e else []) ++ xtrace s' r
  end.
End S.
