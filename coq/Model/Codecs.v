(* Model/Codecs.v — the typed value codecs of attribute.go, one definition per
   Go function.  Go-side values: uintN as N, net.IP / HardwareAddr / IPMask as
   bytes, time.Time as its Unix seconds (Z), *net.IPNet as (IP, Mask). *)
From Radius Require Import Base.Bytes Base.Guard Base.Res Gen.Consts Model.Attrs.
Open Scope nat_scope.

Definition dec_uint (g : list guard) (a : bytes) : res N :=
  if holds (gd g 0) (zlen a) then Err E_invalid else Ok (be_dec a).
Definition integer := dec_uint G_Integer.
Definition short := dec_uint G_Short.
Definition integer64 := dec_uint G_Integer64.
Definition new_integer (i : N) : bytes := be_enc 4 i.
Definition new_short (i : N) : bytes := be_enc 2 i.
Definition new_integer64 (i : N) : bytes := be_enc 8 i.

Definition gostring (a : bytes) : bytes := a.
Definition new_string (s : bytes) : res bytes :=
  if holds (gd G_NewString 0) (zlen s) then Err E_invalid else Ok s.
Definition gobytes (a : bytes) : bytes := a.
Definition new_bytes (b : bytes) : res bytes :=
  if holds (gd G_NewBytes 0) (zlen b) then Err E_invalid else Ok b.

(* net.IP.To4 / To16 *)
Definition all_zero (l : bytes) : bool := forallb (fun b => (b =? 0)%N) l.
Definition to4 (ip : bytes) : option bytes :=
  if length ip =? 4 then Some ip
  else if (length ip =? 16) && all_zero (firstn 10 ip) && beq (firstn 2 (skipn 10 ip)) [255; 255]%N
       then Some (skipn 12 ip) else None.
Definition v4_in_v6_prefix : bytes := repeat 0%N 10 ++ [255; 255]%N.
Definition to16 (ip : bytes) : option bytes :=
  if length ip =? 4 then Some (v4_in_v6_prefix ++ ip)
  else if length ip =? 16 then Some ip else None.

Definition ipaddr (a : bytes) : res bytes :=
  if holds (gd G_IPAddr 0) (zlen a) then Err E_invalid else Ok a.
Definition new_ipaddr (ip : bytes) : res bytes :=
  match to4 ip with Some a => Ok a | None => Err E_invalid end.
Definition ipv6addr (a : bytes) : res bytes :=
  if holds (gd G_IPv6Addr 0) (zlen a) then Err E_invalid else Ok a.
Definition new_ipv6addr (ip : bytes) : res bytes :=
  match to16 ip with Some a => Ok a | None => Err E_invalid end.

Definition ifid (a : bytes) : res bytes :=
  if holds (gd G_IFID 0) (zlen a) then Err E_invalid else Ok a.
Definition new_ifid (addr : bytes) : res bytes :=
  if holds (gd G_NewIFID 0) (zlen addr) then Err E_invalid else Ok addr.

(* Date: time.Unix(int64(sec), 0) / uint32(t.Unix()) *)
Definition date (a : bytes) : res Z :=
  if holds (gd G_Date 0) (zlen a) then Err E_invalid else Ok (Z.of_N (be_dec a)).
Definition new_date (unix : Z) : res bytes :=
  if holds (gd G_NewDate 0) unix || holds (gd G_NewDate 1) unix then Err E_invalid
  else Ok (be_enc 4 (Z.to_N (unix mod 4294967296))).

Definition vendor_specific (a : bytes) : res (N * bytes) :=
  if holds (gd G_VendorSpecific 0) (zlen a) then Err E_invalid
  else Ok (be_dec (firstn 4 a), skipn 4 a).
Definition new_vendor_specific (id : N) (v : bytes) : res bytes :=
  if holds (gd G_NewVendorSpecific 0) (zlen v) || holds (gd G_NewVendorSpecific 1) (zlen v) then Err E_invalid
  else Ok (be_enc 4 id ++ v).

Definition tlv_dec (a : bytes) : res (N * bytes) :=
  if holds (gd G_TLV 0) (zlen a) || holds (gd G_TLV 1) (zlen a) then Err E_invalid else
  match a with
  | t :: l :: v => if negb (Z.of_N l =? zlen a)%Z then Err E_invalid else Ok (t, v)
  | _ => Panic
  end.
Definition new_tlv (t : N) (v : bytes) : res bytes :=
  if holds (gd G_NewTLV 0) (zlen v) || holds (gd G_NewTLV 1) (zlen v) then Err E_invalid
  else Ok (t :: zbyte (2 + zlen v) :: v).

(* ---- IPv6 prefix ---- *)
(* a mask byte of the form 1^k 0^(8-k) *)
Definition byte_ones (v : N) : option nat :=
  if (v =? 0)%N then Some 0 else if (v =? 128)%N then Some 1 else if (v =? 192)%N then Some 2
  else if (v =? 224)%N then Some 3 else if (v =? 240)%N then Some 4 else if (v =? 248)%N then Some 5
  else if (v =? 252)%N then Some 6 else if (v =? 254)%N then Some 7 else if (v =? 255)%N then Some 8 else None.

(* net.simpleMaskLength: leading ones, -1 (None) when ones do not form a prefix *)
Fixpoint mask_ones (m : bytes) : option nat :=
  match m with
  | [] => Some 0
  | v :: r =>
    if (v =? 255)%N then match mask_ones r with Some n => Some (8 + n) | None => None end
    else match byte_ones v with
         | Some k => if all_zero r then Some k else None
         | None => None
         end
  end.
(* IPMask.Size *)
Definition mask_size (m : bytes) : nat * nat :=
  match mask_ones m with Some n => (n, 8 * length m) | None => (0, 0) end.

(* b &^= 1<<(7-i) for i = k..7 : keep the top k bits *)
Definition keep_top (b : N) (k : nat) : N := (b / 2 ^ N.of_nat (8 - k) * 2 ^ N.of_nat (8 - k))%N.

Definition new_ipv6prefix (ip mask : bytes) : res bytes :=
  if holds (gd G_NewIPv6Prefix 0) (zlen ip) then Err E_invalid else
  let '(ones, bits) := mask_size mask in
  if holds (gd G_NewIPv6Prefix 1) (Z.of_nat bits) then Err E_invalid else
  let n := (ones + 7) / 8 in
  let body := firstn n ip in
  let body' :=
    if holds (gd G_NewIPv6Prefix 2) (Z.of_nat (ones mod 8)) then
      match rev body with
      | last :: r => rev r ++ [keep_top last (ones mod 8)]
      | [] => body       (* attr[len(attr)-1] would be attr[1]: ones%8 != 0 implies n >= 1 *)
      end
    else body in
  Ok (0%N :: zbyte (Z.of_nat ones) :: body').

Fixpoint cidr_mask (ones n : nat) : bytes :=   (* net.CIDRMask(ones, 8*n) *)
  match n with
  | O => []
  | S n' => if 8 <=? ones then 255%N :: cidr_mask (ones - 8) n'
            else (255 - (2 ^ N.of_nat (8 - ones) - 1))%N :: cidr_mask 0 n'
  end.

(* bits bit..7 of the octet (numbered from the most significant) are zero *)
Definition low_zero (b : N) (bit : nat) : bool := (b mod 2 ^ N.of_nat (8 - bit) =? 0)%N.

Definition ipv6prefix (a : bytes) : res (bytes * bytes) :=
  if holds (gd G_IPv6Prefix 0) (zlen a) || holds (gd G_IPv6Prefix 1) (zlen a) then Err E_invalid else
  match a with
  | _ :: pl :: data =>
    if holds (gd G_IPv6Prefix 2) (Z.of_N pl) then Err E_invalid else
    let ip := firstn 16 (pad_to 16 data) in
    let p := N.to_nat pl in
    let tail := skipn (p / 8) ip in
    let ok := match tail with
              | [] => true
              | b :: r => low_zero b (p mod 8) && all_zero r
              end in
    if ok then Ok (ip, cidr_mask p 16) else Err E_invalid
  | _ => Panic
  end.
