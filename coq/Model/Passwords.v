(* Model/Passwords.v — attribute.go: NewUserPassword / UserPassword (RFC 2865
   s5.2) and NewTunnelPassword / TunnelPassword (RFC 2868 s3.5), transcribed
   loop by loop.  H is the hash (MD5 in the code). *)
From Radius Require Import Base.Bytes Base.Guard Base.Res Gen.Consts Model.Attrs.
Open Scope nat_scope.

Section Hash.
Variable H : bytes -> bytes.

(* Go: a[lo:hi] *)
Definition slice (a : bytes) (lo hi : nat) : res bytes :=
  if (hi <? lo) || (length a <? hi) then Panic else Ok (firstn (hi - lo) (skipn lo a)).

(* for j := 0; j < 16 && i+j < len(p); j++ { enc[i+j] ^= p[i+j] }  on enc with len(enc) = i+16 *)
Definition xor_at (enc : bytes) (i : nat) (p : bytes) : bytes :=
  firstn i enc ++ xor_pad (skipn i enc) (skipn i p).

(* ---- NewUserPassword (attribute.go:184-223) ---- *)
Fixpoint nup_loop (fuel : nat) (sec pt enc : bytes) (i : nat) : res bytes :=
  match fuel with
  | O => OutOfFuel
  | S f =>
    if i <? length pt then
      match slice enc (i - 16) i with
      | Ok prev =>
        let enc' := enc ++ H (sec ++ prev) in
        nup_loop f sec pt (xor_at enc' i pt) (i + 16)
      | _ => Panic
      end
    else Ok enc
  end.

Definition new_user_password (pt sec ra : bytes) : res bytes :=
  if holds (gd G_NewUserPassword 0) (zlen pt) then Err E_invalid else
  if holds (gd G_NewUserPassword 1) (zlen sec) then Err E_invalid else
  if holds (gd G_NewUserPassword 2) (zlen ra) then Err E_invalid else
  let enc := H (sec ++ ra) in
  nup_loop (S (length pt)) sec pt (xor_at enc 0 pt) 16.

(* ---- UserPassword (attribute.go:141-178) ---- *)
Fixpoint up_loop (fuel : nat) (sec a dec : bytes) (i : nat) : res bytes :=
  match fuel with
  | O => OutOfFuel
  | S f =>
    if i <? length a then
      match slice a (i - 16) i, slice a i (i + 16) with
      | Ok prev, Ok cur =>
        let dec' := dec ++ H (sec ++ prev) in
        up_loop f sec a (firstn i dec' ++ xor_pad (skipn i dec') cur) (i + 16)
      | _, _ => Panic
      end
    else Ok dec
  end.

Definition user_password (a sec ra : bytes) : res bytes :=
  if holds (gd G_UserPassword 0) (zlen a) || holds (gd G_UserPassword 1) (zlen a)
     || holds (gd G_UserPassword 2) (zlen a mod 16)%Z then Err E_invalid else
  if holds (gd G_UserPassword 3) (zlen sec) then Err E_invalid else
  if holds (gd G_UserPassword 4) (zlen ra) then Err E_invalid else
  match slice a 0 16 with
  | Ok first =>
    let dec := xor_pad (H (sec ++ ra)) first in
    match up_loop (S (length a)) sec a dec 16 with
    | Ok d => Ok (take_until_nul d)
    | r => r
    end
  | _ => Panic
  end.

(* ---- NewTunnelPassword (attribute.go:329-377) ---- *)
(* attr[2+chunk*16+i] ^= b[i] for i < 16 *)
Definition xor_block (attr : bytes) (off : nat) (b : bytes) : res bytes :=
  if length attr <? off + 16 then Panic
  else Ok (firstn off attr ++ xor_pad (firstn 16 (skipn off attr)) b ++ skipn (off + 16) attr).

Fixpoint ntp_loop (n : nat) (chunk : nat) (sec ra salt attr : bytes) : res bytes :=
  match n with
  | O => Ok attr
  | S n' =>
    let h :=
      if chunk =? 0 then Ok (H (sec ++ ra ++ salt))
      else match slice attr (2 + (chunk - 1) * 16) (2 + chunk * 16) with
           | Ok prev => Ok (H (sec ++ prev))
           | _ => Panic
           end in
    match h with
    | Ok b =>
      match xor_block attr (2 + chunk * 16) b with
      | Ok attr' => ntp_loop n' (S chunk) sec ra salt attr'
      | _ => Panic
      end
    | _ => Panic
    end
  end.

Definition salt_msb_set (b : N) : bool := (128 <=? b mod 256)%N.

Definition new_tunnel_password (pw salt sec ra : bytes) : res bytes :=
  if holds (gd G_NewTunnelPassword 0) (zlen pw) then Err E_invalid else
  if holds (gd G_NewTunnelPassword 1) (zlen salt) then Err E_invalid else
  match salt with
  | s0 :: _ =>
    if negb (salt_msb_set s0) then Err E_invalid else
    if holds (gd G_NewTunnelPassword 3) (zlen sec) then Err E_invalid else
    if holds (gd G_NewTunnelPassword 4) (zlen ra) then Err E_invalid else
    let chunks := (1 + length pw + 16 - 1) / 16 in
    let chunks := if chunks =? 0 then 1 else chunks in
    (* attr := make([]byte, 2+chunks*16); copy(attr[:2], salt); attr[2] = byte(len); copy(attr[3:], pw) *)
    let attr := firstn 2 salt ++ pad_to (chunks * 16) (zbyte (zlen pw) :: pw) in
    ntp_loop chunks 0 sec ra salt attr
  | [] => Panic  (* salt[0] on an empty slice: excluded by the length guard *)
  end.

(* ---- TunnelPassword (attribute.go:382-433) ---- *)
Fixpoint tp_loop (n : nat) (chunk : nat) (sec ra salt a plain : bytes) : res bytes :=
  match n with
  | O => Ok plain
  | S n' =>
    let h :=
      if chunk =? 0 then Ok (H (sec ++ ra ++ salt))
      else match slice a ((chunk - 1) * 16) (chunk * 16) with
           | Ok prev => Ok (H (sec ++ prev))
           | _ => Panic
           end in
    match h, slice a (chunk * 16) (chunk * 16 + 16) with
    | Ok b, Ok cur => tp_loop n' (S chunk) sec ra salt a (plain ++ xor_pad cur b)
    | _, _ => Panic
    end
  end.

Definition tunnel_password (a sec ra : bytes) : res (bytes * bytes) :=
  if holds (gd G_TunnelPassword 0) (zlen a) || holds (gd G_TunnelPassword 1) (zlen a)
     || holds (gd G_TunnelPassword 2) ((zlen a - 2) mod 16)%Z then Err E_invalid else
  if holds (gd G_TunnelPassword 3) (zlen sec) then Err E_invalid else
  if holds (gd G_TunnelPassword 4) (zlen ra) then Err E_invalid else
  match a with
  | a0 :: _ =>
    if negb (salt_msb_set a0) then Err E_invalid else
    match slice a 0 2 with
    | Ok salt =>
      let a' := skipn 2 a in
      let chunks := length a' / 16 in
      match tp_loop chunks 0 sec ra salt a' [] with
      | Ok plain =>
        match plain with
        | pl :: _ =>
          if (Z.of_N pl >? zlen plain - 1)%Z then Err E_invalid else
          (* plaintext[1 : 1+passwordLength], the sum in byte arithmetic *)
          match slice plain 1 (N.to_nat ((1 + pl) mod 256)) with
          | Ok pw => Ok (pw, salt)
          | _ => Panic
          end
        | [] => Panic
        end
      | Err e => Err e | Panic => Panic | OutOfFuel => OutOfFuel
      end
    | _ => Panic
    end
  | [] => Panic
  end.
End Hash.
