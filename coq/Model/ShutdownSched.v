(* Model/ShutdownSched.v — the same step function driven at the granularity the
   harness controls: every harness action runs one thread to its next parking
   point (hook, user callback, blocking read, select), then lets the consequences
   settle (closed listeners wake their readers, a closed lastActive wakes waiting
   Shutdown calls).  Used only for the correspondence check. *)
From Radius Require Import Base.Bytes Base.Res Model.Shutdown.
Open Scope nat_scope.

Inductive hact :=
| HServe (c : nat)
| HRelease (i : nat)
| HDeliver (i : nat) (drop : bool)
| HHandlerDone (g : nat)
| HShutdown
| HWait (j : nat)
| HExpire (j : nat).

Section M.
Variable legacy : bool.

Fixpoint run_thread (fuel : nat) (s : state) (i : nat) : state :=
  match fuel with
  | O => s
  | S f =>
    (* a Serve parked at the hook or a Shutdown parked at its hook does not move by itself *)
    match nth_error (threads s) i with
    | Some (TServe _ S_registered) | Some (TShut H_wait _) => s
    | _ => match step legacy s i ARun with Some s' => run_thread f s' i | None => s end
    end
  end.

Definition settle_thread (s : state) (i : nat) : state :=
  match nth_error (threads s) i with
  | Some (TServe c S_reading) =>
    if existsb (Nat.eqb c) (closedc s) then
      match step legacy s i (ARead_error false) with Some s' => run_thread 20 s' i | None => s end
    else s
  | Some (TShut H_select e) =>
    if 0 <? closes s then match step legacy s i AWake_nil with Some s' => s' | None => s end
    else if e then match step legacy s i AWake_err with Some s' => s' | None => s end
    else s
  | _ => s
  end.

Fixpoint settle_all (s : state) (n : nat) : state :=
  match n with O => s | S n' => settle_thread (settle_all s n') n' end.
Definition settle (s : state) : state :=
  let n := length (threads s) in settle_all (settle_all (settle_all s n) n) n.

Definition force_step (s : state) (i : nat) (a : action) : state :=
  match step legacy s i a with Some s' => s' | None => s end.

Definition do_hact (s : state) (h : hact) : state :=
  settle
  match h with
  | HServe c => let s1 := add_thread s (TServe c S_start) in run_thread 20 s1 (length (threads s))
  | HRelease i =>
    match nth_error (threads s) i with
    | Some (TServe _ S_registered) => force_step s i ARun
    | _ => s
    end
  | HDeliver i drop =>
    let s1 := force_step s i (ARead_datagram drop) in
    if length (threads s) <? length (threads s1) then run_thread 20 s1 (length (threads s)) else s1
  | HHandlerDone g => run_thread 20 (force_step s g AHandler_return) g
  | HShutdown => let s1 := add_thread s (TShut H_start false) in run_thread 20 s1 (length (threads s))
  | HWait j =>
    match nth_error (threads s) j with
    | Some (TShut H_wait _) => force_step s j ARun
    | _ => s
    end
  | HExpire j => force_step s j AExpire
  end.

Definition status (t : thread) : Z :=
  match t with
  | TServe _ S_registered => 11 | TServe _ S_reading => 12
  | TServe _ (S_returned RetShutdown) => 13 | TServe _ (S_returned RetErr) => 14 | TServe _ _ => 19
  | TDgram D_handler => 21 | TDgram D_end => 22 | TDgram _ => 29
  | TShut H_wait _ => 31 | TShut H_select _ => 32 | TShut H_ret_nil false => 33
  (* with an ended context and a closed lastActive, select may pick either case *)
  | TShut H_ret_nil true => 35 | TShut H_ret_err _ => 35
  | TShut _ _ => 39
  end.

Fixpoint run_hacts (s : state) (hs : list hact) : list (list Z) :=
  match hs with
  | [] => []
  | h :: r =>
    let s' := do_hact s h in
    (map status (threads s') ++ [(if Nat.leb 2 (closes s') then 2%Z else 0%Z); Z.of_nat (length (nodup Nat.eq_dec (closedc s')))])
      :: run_hacts s' r
  end.
End M.
