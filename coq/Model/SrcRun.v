(* Model/SrcRun.v — running the translated source (Gen/Src.v): the library
   functions outside the translated files, the call context, and the token
   encoding of GoLite values used by the driver. *)
From Coq Require Import String.
From Radius Require Import Base.Bytes Base.GoLite Model.Codecs Gen.Src.
Open Scope list_scope.
Open Scope nat_scope.

(* net.IP.To4 / To16, net.IPMask.Size, net.CIDRMask by their documented behaviour
   (the same definitions Model/Codecs.v uses) *)
Definition prims : ctx := fun name args =>
  if String.eqb name "net.IP.To4" then
    match args with
    | [v] => match as_bytes v with
             | Some ip => Some (match to4 ip with Some a => VBytes a | None => VNil end)
             | None => None
             end
    | _ => None
    end
  else if String.eqb name "net.IP.To16" then
    match args with
    | [v] => match as_bytes v with
             | Some ip => Some (match to16 ip with Some a => VBytes a | None => VNil end)
             | None => None
             end
    | _ => None
    end
  else if String.eqb name "net.IPMask.Size" then
    match args with
    | [v] => match as_bytes v with
             | Some m => let '(o, b) := mask_size m in Some (VTup [VInt (Z.of_nat o); VInt (Z.of_nat b)])
             | None => None
             end
    | _ => None
    end
  else if String.eqb name "net.CIDRMask" then
    match args with
    | [VInt ones; VInt bits] =>
      if (((bits =? 32) || (bits =? 128)) && (0 <=? ones) && (ones <=? bits))%Z
      then Some (VBytes (cidr_mask (Z.to_nat ones) (Z.to_nat (bits / 8))))
      else Some VNil
    | _ => None
    end
  else None.

Definition src_depth : nat := 6.
Definition src_ctx (fuel : nat) : ctx := ctx_of prims src_table fuel src_depth.

(* [Some (Some v)]: returned v; [Some None]: panicked (or not translated); [None]: out of fuel *)
Definition src_run (key : string) (fuel : nat) (args : list val) : option (option val) :=
  match lookup_fn src_table key with
  | Some f => run (src_ctx fuel) fuel f args
  | None => Some None
  end.

(* ---- values as token streams ----
   0 z | 1 b | 2 <bytes> | 3 (nil) | 4 (error) | 5 n v.. (list) | 6 n v.. (record) | 7 n v.. (tuple) *)
Fixpoint size_val (v : val) : nat :=
  match v with
  | VBytes l => length l
  | VList l | VRec l | VTup l => fold_right (fun x acc => size_val x + acc) 1 l
  | _ => 1
  end.

Fixpoint take_val (fuel : nat) (zs : list Z) (bs : list bytes) : option (val * (list Z * list bytes)) :=
  match fuel with
  | O => None
  | S f =>
    let take_n := fix take_n (n : nat) (zs : list Z) (bs : list bytes) : option (list val * (list Z * list bytes)) :=
      match n with
      | O => Some ([], (zs, bs))
      | S n' => match take_val f zs bs with
                | Some (v, (zs', bs')) =>
                  match take_n n' zs' bs' with
                  | Some (vs, rest) => Some (v :: vs, rest)
                  | None => None
                  end
                | None => None
                end
      end in
    match zs with
    | 0%Z :: z :: zs' => Some (VInt z, (zs', bs))
    | 1%Z :: z :: zs' => Some (VBool (negb (z =? 0)%Z), (zs', bs))
    | 2%Z :: zs' => match bs with b :: bs' => Some (VBytes b, (zs', bs')) | [] => None end
    | 3%Z :: zs' => Some (VNil, (zs', bs))
    | 4%Z :: zs' => Some (VErr, (zs', bs))
    | 5%Z :: n :: zs' => match take_n (Z.to_nat n) zs' bs with Some (vs, r) => Some (VList vs, r) | None => None end
    | 6%Z :: n :: zs' => match take_n (Z.to_nat n) zs' bs with Some (vs, r) => Some (VRec vs, r) | None => None end
    | 7%Z :: n :: zs' => match take_n (Z.to_nat n) zs' bs with Some (vs, r) => Some (VTup vs, r) | None => None end
    | _ => None
    end
  end.

Fixpoint take_vals (n : nat) (zs : list Z) (bs : list bytes) : option (list val) :=
  match n with
  | O => Some []
  | S n' => match take_val (S (length zs)) zs bs with
            | Some (v, (zs', bs')) => match take_vals n' zs' bs' with Some vs => Some (v :: vs) | None => None end
            | None => None
            end
  end.
