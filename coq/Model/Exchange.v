(* Model/Exchange.v — lifecycle of Client.Exchange (client.go:46-130): the
   calling goroutine and the helper goroutine it starts, one step per
   synchronisation point / blocking operation.  Time is not modelled: a ticker
   firing is an event, "promptly" is "within a bounded number of steps". *)
From Radius Require Import Base.Bytes Base.Guard Base.Res Gen.Consts Model.Attrs Model.Packet Model.Client.
Open Scope nat_scope.

Inductive xret :=
| XPacket (p : packet)
| XErr (e : N)          (* Encode error, packet error at the budget *)
| XCtxErr               (* the context's own error *)
| XNetErr.              (* dial / read error of the network *)

Inductive mpc := M_start | M_dialled | M_reading (errors : Z) | M_returned (r : xret).
Inductive hpc := Hp_none | Hp_running | Hp_exited.

Record xstate := mkx {
  xmain : mpc;
  xhelper : hpc;
  ctx_done : bool;        (* the caller's context has ended *)
  derived_done : bool;    (* the derived context: cancelled or parent ended *)
  conn_closed : bool;
  ticker_stopped : bool;
  sent : list bytes       (* every datagram written to the socket, in order *)
}.

Inductive xevent :=
| XStep                   (* the calling goroutine performs its next non-blocking step *)
| XDialFail               (* DialContext fails *)
| XDatagram (d : bytes)   (* conn.Read delivers a datagram *)
| XReadErr                (* conn.Read fails although the socket is open (network error) *)
| XTick                   (* the retry ticker fires and the helper picks that case *)
| XCtxDone                (* the caller's context is cancelled or its deadline passes *)
| XHelper.                (* the helper goroutine observes ctx.Done(): closes the socket and exits *)

Section S.
Variable H : bytes -> bytes.
Variable retry : Z.               (* c.Retry *)
Variable max_errors : Z.
Variable skip_verify : bool.
Variable request : packet.

Definition xinit : xstate := mkx M_start Hp_none false false false false [].

Definition set_main (s : xstate) (m : mpc) : xstate :=
  mkx m (xhelper s) (ctx_done s) (derived_done s) (conn_closed s) (ticker_stopped s) (sent s).

(* return: deferred retry.Stop(), cancel(), conn.Close() run before the caller gets the value *)
Definition do_return (s : xstate) (r : xret) : xstate :=
  mkx (M_returned r) (xhelper s) (ctx_done s) true true true (sent s).

Definition write (s : xstate) (w : bytes) : list bytes :=
  if conn_closed s then sent s else sent s ++ [w].

Definition xstep (s : xstate) (e : xevent) : xstate :=
  match e, xmain s with
  | XCtxDone, _ => mkx (xmain s) (xhelper s) true true (conn_closed s) (ticker_stopped s) (sent s)
  | XStep, M_start =>
    match encode H request with
    | Ok w => set_main s M_dialled          (* wire computed once, before dialling *)
    (* nothing exists yet: no socket, no ticker, no helper *)
    | Err e => mkx (M_returned (XErr e)) Hp_none (ctx_done s) (derived_done s) true true (sent s)
    | _ => mkx (M_returned (XErr 98)) Hp_none (ctx_done s) (derived_done s) true true (sent s)
    end
  | XDialFail, M_dialled =>
    (* no socket, no helper, nothing deferred yet *)
    mkx (M_returned (if ctx_done s then XCtxErr else XNetErr)) Hp_none (ctx_done s) (derived_done s) true true (sent s)
  | XStep, M_dialled =>
    match encode H request with
    | Ok w => mkx (M_reading 0) Hp_running (ctx_done s) (derived_done s) (conn_closed s)
                  (negb (holds (gd G_Client_Exchange 0) retry)) (write s w)
    | _ => s
    end
  | XDatagram d, M_reading count =>
    if conn_closed s then s else
    match encode H request with
    | Ok w =>
      match client_loop H max_errors skip_verify w (secret request) [d] count 0 with
      | Returned p _ => do_return s (XPacket p)
      | Failed e _ => do_return s (XErr e)
      | Waiting c => set_main s (M_reading c)
      end
    | _ => s
    end
  | XReadErr, M_reading _ => do_return s (if derived_done s then XCtxErr else XNetErr)
  | XStep, M_reading _ =>
    (* a Read on a closed socket fails at once *)
    if conn_closed s then do_return s (if derived_done s then XCtxErr else XNetErr) else s
  | XTick, _ =>
    match xhelper s, encode H request with
    | Hp_running, Ok w =>
      if ticker_stopped s then s
      else mkx (xmain s) (xhelper s) (ctx_done s) (derived_done s) (conn_closed s) (ticker_stopped s) (write s w)
    | _, _ => s
    end
  | XHelper, _ =>
    match xhelper s with
    | Hp_running => if derived_done s
                    then mkx (xmain s) Hp_exited (ctx_done s) (derived_done s) true (ticker_stopped s) (sent s)
                    else s
    | _ => s
    end
  | _, _ => s
  end.

Fixpoint xrun (s : xstate) (es : list xevent) : xstate :=
  match es with [] => s | e :: r => xrun (xstep s e) r end.
End S.
