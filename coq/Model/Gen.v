(* Model/Gen.v — the decision layer of dictionarygen.Generate (generator.go): which
   dictionaries are refused and with what, which declarations are emitted, in what
   order, with what parameters.  Identifiers are inputs (computed by the real
   identifier() through the verif hook); function bodies are not modelled (they
   are the templates whose semantics is Model/Helpers.v, tied to the shipped
   output by C12/C18). *)
From Radius Require Import Base.Bytes Base.Res Gen.Consts.
Open Scope Z_scope.

(* dictionary.AttributeType *)
Definition T_string := 1. Definition T_octets := 2. Definition T_ipaddr := 3. Definition T_date := 4.
Definition T_integer := 5. Definition T_ipv6addr := 6. Definition T_ipv6prefix := 7. Definition T_ifid := 8.
Definition T_integer64 := 9. Definition T_vsa := 10. Definition T_byte := 13. Definition T_short := 14.

Record gattr := mkgattr {
  ga_name : bytes; ga_ident : bytes; ga_oid : list Z; ga_type : Z;
  ga_size : option Z; ga_enc : option Z; ga_tag : option bool; ga_concat : option bool }.
Record gvalue := mkgvalue { gl_attr : bytes; gl_name : bytes; gl_ident : bytes; gl_num : Z }.
Record gvendor := mkgvendor {
  gn_name : bytes; gn_ident : bytes; gn_num : Z; gn_tlen : Z; gn_llen : Z;
  gn_attrs : list gattr; gn_vals : list gvalue }.
Record gdict := mkgdict { gd_attrs : list gattr; gd_vals : list gvalue; gd_vendors : list gvendor }.
Record gopts := mkgopts { go_ignore : list bytes; go_ext : list (bytes * bytes) }.   (* external: (attribute name, identifier) *)

Definition E_conflict : N := 1.  Definition E_attr : N := 2.  Definition E_unknown : N := 3.
Definition E_vendor : N := 4.    Definition E_vattr : N := 5.
Definition E_range : N := 6.     Definition E_valconflict : N := 7.

Definition mem (x : bytes) (l : list bytes) : bool := existsb (beq x) l.
Definition has_tag (a : gattr) : bool := match ga_tag a with Some true => true | _ => false end.
Definition is_concat (a : gattr) : bool := match ga_concat a with Some true => true | _ => false end.
Definition is_str (t : Z) : bool := (t =? T_string) || (t =? T_octets).
Definition salted (a : gattr) : bool := match ga_enc a with Some e => e =? 2 | None => false end.
Definition some {A} (o : option A) : bool := match o with Some _ => true | None => false end.

(* encryptSupported: User-Password hiding for text and octets, Tunnel-Password hiding for
   text, octets, addresses and untagged integers *)
Definition is_int (t : Z) : bool := (t =? T_short) || (t =? T_integer) || (t =? T_integer64).
Definition enc_supported (a : gattr) (e : Z) : bool :=
  if is_str (ga_type a) then true
  else if (ga_type a =? T_ipaddr) || (ga_type a =? T_ipv6addr) then e =? 2
  else if is_int (ga_type a) then (e =? 2) && negb (has_tag a)
  else false.
Definition common_invalid (a : gattr) : bool :=
  negb (Nat.eqb (length (ga_oid a)) 1)
  || match ga_enc a with Some e => negb (enc_supported a e) | None => false end
  || (some (ga_size a) && negb (is_str (ga_type a)))
  || match ga_enc a with Some e => negb (e =? 1) && negb (e =? 2) | None => false end
  || (has_tag a && negb (is_str (ga_type a) || (ga_type a =? T_integer))).
Definition supported (t : Z) : bool :=
  is_str t || (t =? T_ipaddr) || (t =? T_ipv6addr) || (t =? T_ipv6prefix) || (t =? T_ifid) || (t =? T_date)
  || (t =? T_short) || (t =? T_integer) || (t =? T_integer64) || (t =? T_byte).
Definition invalid_top (a : gattr) : bool :=
  common_invalid a
  || (is_concat a && (negb (is_str (ga_type a)) || some (ga_enc a) || some (ga_tag a) || some (ga_size a)))
  || negb (supported (ga_type a) || (ga_type a =? T_vsa)).
Definition invalid_vendor_attr (a : gattr) : bool :=
  common_invalid a || match ga_oid a with [n] => (n <? 0) || (255 <? n) | _ => true end
  || is_concat a || negb (supported (ga_type a)).

(* the validation loop: skip ignored, refuse a repeated identifier, refuse an invalid attribute *)
Fixpoint check_attrs (invalid : gattr -> bool) (e : N) (ignore seen : list bytes) (l : list gattr)
  : res (list gattr * list bytes) :=
  match l with
  | [] => Ok ([], seen)
  | a :: r =>
    if mem (ga_name a) ignore then check_attrs invalid e ignore seen r
    else if mem (ga_ident a) seen then Err E_conflict
    else if invalid a then Err e
    else match check_attrs invalid e ignore (ga_ident a :: seen) r with
         | Ok (kept, seen') => Ok (a :: kept, seen')
         | Err x => Err x | Panic => Panic | OutOfFuel => OutOfFuel
         end
  end.

(* sort.Stable with the three Less functions *)
Section Sort.
Context {A : Type} (lt : A -> A -> bool).
Fixpoint insert (x : A) (l : list A) : list A :=
  match l with
  | [] => [x]
  | y :: r => if lt x y then x :: l else y :: insert x r
  end.
Definition sort (l : list A) : list A := fold_right insert [] l.
End Sort.

Fixpoint oid_lt (fuel : nat) (a b : list Z) : bool :=
  match fuel with
  | O => false
  | S f =>
    match a, b with
    | [], [] => false
    | _, _ =>
      let x := match a with x :: _ => x | [] => 0 end in
      let y := match b with y :: _ => y | [] => 0 end in
      if negb (x =? y) then x <? y else oid_lt f (tl a) (tl b)
    end
  end.
Fixpoint bytes_lt (a b : bytes) : bool :=
  match a, b with
  | _, [] => false
  | [], _ :: _ => true
  | x :: a', y :: b' => if (x <? y)%N then true else if (y <? x)%N then false else bytes_lt a' b'
  end.

(* the three Less functions of dictionary/sort.go: the number first, then the name *)
Definition oid_cmp_lt (a b : list Z) : bool := oid_lt (S (length a + length b)) a b.
Definition attr_lt (a b : gattr) : bool :=
  if oid_cmp_lt (ga_oid a) (ga_oid b) then true else if oid_cmp_lt (ga_oid b) (ga_oid a) then false
  else bytes_lt (ga_name a) (ga_name b).
Definition value_lt (a b : gvalue) : bool :=
  if negb (gl_num a =? gl_num b) then gl_num a <? gl_num b
  else if negb (beq (gl_attr a) (gl_attr b)) then bytes_lt (gl_attr a) (gl_attr b)
  else bytes_lt (gl_name a) (gl_name b).
Definition vendor_lt (a b : gvendor) : bool :=
  if negb (gn_num a =? gn_num b) then gn_num a <? gn_num b else bytes_lt (gn_name a) (gn_name b).

(* values: skip ignored attributes; local ones are kept, external ones go to their attribute; anything else is refused *)
Fixpoint split_values (ignore : list bytes) (local : list bytes) (ext : list bytes) (l : list gvalue)
  : res (list gvalue * list gvalue) :=
  match l with
  | [] => Ok ([], [])
  | v :: r =>
    if mem (gl_attr v) ignore then split_values ignore local ext r
    else match split_values ignore local ext r with
         | Ok (lo, ex) =>
           if mem (gl_attr v) local then Ok (v :: lo, ex)
           else if mem (gl_attr v) ext then Ok (lo, v :: ex)
           else Err E_unknown
         | Err x => Err x | Panic => Panic | OutOfFuel => OutOfFuel
         end
  end.

(* checkValues: a number beyond the attribute's width, or one identifier for two numbers *)
Definition max_of (t : Z) : option Z :=
  if t =? T_short then Some 65535 else if t =? T_integer then Some 4294967295
  else if t =? T_integer64 then Some 18446744073709551615 else None.
Fixpoint check_vals (max : Z) (seen : list (bytes * Z)) (l : list gvalue) : option N :=
  match l with
  | [] => None
  | v :: r =>
    if max <? gl_num v then Some E_range
    else if existsb (fun s => beq (fst s) (gl_ident v) && negb (snd s =? gl_num v)) seen then Some E_valconflict
    else check_vals max ((gl_ident v, gl_num v) :: seen) r
  end.
Definition check_values (a : gattr) (vals : list gvalue) : option N :=
  match max_of (ga_type a) with
  | Some m => check_vals m [] (filter (fun v => beq (gl_attr v) (ga_name a)) vals)
  | None => None
  end.
Fixpoint first_error {A} (f : A -> option N) (l : list A) : option N :=
  match l with [] => None | x :: r => match f x with Some e => Some e | None => first_error f r end end.

(* ---- what is emitted ---- *)
Inductive fname := FAdd | FAddString | FGet | FGetString | FGets | FGetStrings | FLookup | FLookupString
                 | FSet | FSetString | FDel.
Inductive vtype := VBytes | VString | VIP | VHW | VNet | VTime | VNamed | VByte.
Inductive gdecl :=
| DTypeConst (ident : bytes) (n : Z)
| DVendorConst (vident : bytes) (n : Z)
| DExtInit (attr_ident : bytes) (vals : list (bytes * Z))
| DIntType (ident : bytes) (bits : Z)
| DValueConst (ident vident : bytes) (n : Z)
| DStrings (ident : bytes)
| DStringer (ident : bytes)
| DFunc (ident : bytes) (f : fname) (tagp qp : bool) (vt : vtype)
| DVendorFunc (vident : bytes) (which : Z).   (* 0 Add 1 Gets 2 Lookup 3 Set 4 Del *)

(* the values of one attribute, consecutive equal numbers collapsed (the later declaration wins) *)
Fixpoint dedup (l : list gvalue) : list gvalue :=
  match l with
  | [] => []
  | v :: r => match dedup r with
              | w :: r' => if gl_num v =? gl_num w then w :: r' else v :: w :: r'
              | [] => [v]
              end
  end.
Definition values_of_attr (a : gattr) (vals : list gvalue) : list gvalue :=
  dedup (filter (fun v => beq (gl_attr v) (ga_name a)) vals).

Definition funcs (a : gattr) (vals : list gvalue) : list gdecl :=
  let id := ga_ident a in
  let t := ga_type a in
  let tg := has_tag a in
  let q := salted a in
  if is_str t then
    if is_concat a then
      [DFunc id FGet false false VBytes; DFunc id FGetString false false VString;
       DFunc id FLookup false false VBytes; DFunc id FLookupString false false VString;
       DFunc id FSet false false VBytes; DFunc id FSetString false false VString; DFunc id FDel false false VBytes]
    else
      [DFunc id FAdd tg false VBytes; DFunc id FAddString tg false VString;
       DFunc id FGet tg q VBytes; DFunc id FGetString tg q VString;
       DFunc id FGets tg q VBytes; DFunc id FGetStrings tg q VString;
       DFunc id FLookup tg q VBytes; DFunc id FLookupString tg q VString;
       DFunc id FSet tg false VBytes; DFunc id FSetString tg false VString; DFunc id FDel false false VBytes]
  else if (t =? T_ipaddr) || (t =? T_ipv6addr) then
    [DFunc id FAdd false false VIP; DFunc id FGet false q VIP; DFunc id FGets false q VIP;
     DFunc id FLookup false q VIP; DFunc id FSet false false VIP; DFunc id FDel false false VIP]
  else if (t =? T_ipv6prefix) || (t =? T_ifid) || (t =? T_date) || (t =? T_byte) then
    let vt := if t =? T_ipv6prefix then VNet else if t =? T_ifid then VHW else if t =? T_date then VTime else VByte in
    [DFunc id FAdd false false vt; DFunc id FGet false false vt; DFunc id FGets false false vt;
     DFunc id FLookup false false vt; DFunc id FSet false false vt; DFunc id FDel false false vt]
  else if (t =? T_short) || (t =? T_integer) || (t =? T_integer64) then
    let bits := if t =? T_short then 16 else if t =? T_integer then 32 else 64 in
    [DIntType id bits]
    ++ map (fun v => DValueConst id (gl_ident v) (gl_num v)) (values_of_attr a vals)
    ++ [DStrings id; DStringer id;
        DFunc id FAdd tg false VNamed; DFunc id FGet tg q VNamed; DFunc id FGets tg q VNamed;
        DFunc id FLookup tg q VNamed; DFunc id FSet tg false VNamed; DFunc id FDel false false VNamed]
  else [].   (* vsa: only its _Type constant *)

Record cvendor := mkcvendor { cv_name : bytes; cv_ident : bytes; cv_num : Z; cv_attrs : list gattr; cv_vals : list gvalue }.
Definition cvendor_lt (a b : cvendor) : bool :=
  if negb (cv_num a =? cv_num b) then cv_num a <? cv_num b else bytes_lt (cv_name a) (cv_name b).

(* [vseen]: identifiers of the vendors already accepted (two vendors whose names normalise to one identifier
   would be emitted as the same declarations) *)
Fixpoint check_vendors (ignore seen vseen : list bytes) (l : list gvendor) : res (list cvendor) :=
  match l with
  | [] => Ok []
  | v :: r =>
    if negb (gn_llen v =? 1) || negb (gn_tlen v =? 1) then Err E_vendor else
    if mem (gn_ident v) vseen then Err E_conflict else
    match check_attrs invalid_vendor_attr E_vattr ignore seen (gn_attrs v) with
    | Ok (kept, seen') =>
      let attrs := sort attr_lt kept in
      let vals := sort value_lt (gn_vals v) in
      match first_error (fun a => check_values a vals) attrs with
      | Some e => Err e
      | None =>
        match check_vendors ignore seen' (gn_ident v :: vseen) r with
        | Ok cs => Ok (mkcvendor (gn_name v) (gn_ident v) (gn_num v) attrs vals :: cs)
        | Err x => Err x | Panic => Panic | OutOfFuel => OutOfFuel
        end
      end
    | Err x => Err x | Panic => Panic | OutOfFuel => OutOfFuel
    end
  end.

Definition ext_values (exts : list gvalue) (e : bytes * bytes) : list gvalue :=
  sort value_lt (filter (fun v => beq (gl_attr v) (fst e)) exts).

(* the emitted declarations, in order *)
Definition emit (attrs : list gattr) (ext : list (bytes * bytes)) (values exts : list gvalue) (vendors : list cvendor) : list gdecl :=
  map (fun a => DTypeConst (ga_ident a) (hd 0 (ga_oid a))) attrs
  ++ map (fun c => DVendorConst (cv_ident c) (cv_num c)) vendors
  ++ map (fun e => DExtInit (snd e) (map (fun v => (gl_ident v, gl_num v)) (ext_values exts e))) ext
  ++ flat_map (fun a => funcs a values) attrs
  ++ flat_map (fun c => map (DVendorFunc (cv_ident c)) [0; 1; 2; 3; 4]
                        ++ flat_map (fun a => funcs a (cv_vals c)) (cv_attrs c)) vendors.

Definition gen (o : gopts) (d : gdict) : res (list gdecl) :=
  match check_attrs invalid_top E_attr (go_ignore o) [] (gd_attrs d) with
  | Ok (kept, seen) =>
    let attrs := sort attr_lt kept in
    let ext := sort (fun a b => bytes_lt (fst a) (fst b)) (go_ext o) in
    match split_values (go_ignore o) (map ga_name attrs) (map fst ext) (gd_vals d) with
    | Ok (locals, exts) =>
      let values := sort value_lt locals in
      let ext_vals := ext_values exts in
      match first_error (fun a => check_values a values) attrs with
      | Some e => Err e
      | None =>
      match first_error (fun e => check_vals 18446744073709551615 [] (ext_vals e)) ext with
      | Some e => Err e
      | None =>
      match check_vendors (go_ignore o) seen [] (gd_vendors d) with
      | Ok cvs =>
        let vendors := sort cvendor_lt cvs in
        Ok (emit attrs ext values exts vendors)
      | Err x => Err x | Panic => Panic | OutOfFuel => OutOfFuel
      end end end
    | Err x => Err x | Panic => Panic | OutOfFuel => OutOfFuel
    end
  | Err x => Err x | Panic => Panic | OutOfFuel => OutOfFuel
  end.
