(* Model/Client.v — the receive loop of Client.Exchange (client.go:97-129) as a
   fold over the datagrams the socket delivers, in order. *)
From Radius Require Import Base.Bytes Base.Guard Base.Res Gen.Consts Model.Attrs Model.Packet.
Open Scope nat_scope.

Definition E_nonauth : N := 9.   (* *NonAuthenticResponseError *)

Inductive outcome :=
| Returned (p : packet) (i : nat)     (* Exchange returned the parse of datagram i *)
| Failed (e : N) (i : nat)            (* Exchange returned datagram i's error *)
| Waiting (errors : Z).               (* still reading *)

Section S.
Variable H : bytes -> bytes.
Variable max_errors : Z.              (* c.MaxPacketErrors *)
Variable skip_verify : bool.          (* c.InsecureSkipVerify *)
Variable wire sec : bytes.            (* the encoded request, packet.Secret *)

(* packetErrorCount++; if c.MaxPacketErrors > 0 && packetErrorCount >= c.MaxPacketErrors { return } *)
Definition over_budget (g : nat) (count : Z) : bool :=
  holds (gd G_Client_Exchange g) max_errors && (count >=? max_errors)%Z.

Fixpoint client_loop (ds : list bytes) (count : Z) (i : nat) : outcome :=
  match ds with
  | [] => Waiting count
  | d :: r =>
    (* n, err := conn.Read(incoming[:]) with a MaxPacketLength buffer *)
    let d := firstn (Z.to_nat K_MaxPacketLength) d in
    match parse d sec with
    | Ok p =>
      if negb skip_verify && negb (is_authentic_response H d wire sec) then
        let count := (count + 1)%Z in
        if over_budget 2 count then Failed E_nonauth i else client_loop r count (S i)
      else Returned p i
    | Err e =>
      let count := (count + 1)%Z in
      if over_budget 1 count then Failed e i else client_loop r count (S i)
    | Panic => Failed 98 i
    | OutOfFuel => Failed 99 i
    end
  end.

Definition exchange_recv (ds : list bytes) : outcome := client_loop ds 0 0.
End S.
