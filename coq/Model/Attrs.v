(* Model/Attrs.v — attributes.go transcribed: the attribute list, its
   in-place Add/Del/Get/Lookup/Set loops, ParseAttributes, encodeTo and
   AttributesEncodedLen.  Guards come from Gen/Consts.v (srcfacts). *)
From Radius Require Import Base.Bytes Base.Guard Base.Res Gen.Consts.
Open Scope nat_scope.

Record avp := mkavp { atype : Z; aval : bytes }.
Definition attrs := list avp.

Definition zlen {A} (l : list A) : Z := Z.of_nat (length l).

(* ---- ParseAttributes (attributes.go:26-50) ----
   for len(b) > 0 { if len(b) < 2 {err}; length := int(b[1]);
     if length > len(b) || length < 2 || length > 255 {err};
     avp{Type(b[0]), copy of b[2:length]}; b = b[length:] } *)
Fixpoint parse_attrs_f (fuel : nat) (b : bytes) : res attrs :=
  match fuel with
  | O => OutOfFuel
  | S f =>
    if negb (holds (gd G_ParseAttributes 0) (zlen b)) then Ok [] else
    if holds (gd G_ParseAttributes 1) (zlen b) then Err E_attr_short else
    match b with
    | t :: l :: _ =>
      let len := Z.of_N l in
      if (len >? zlen b)%Z || holds (gd G_ParseAttributes 2) len || holds (gd G_ParseAttributes 3) len
      then Err E_attr_len
      else
        (* b[2:length] and b[length:] ; Go panics if the bounds are out of range *)
        let n := Z.to_nat len in
        if (n <? 2) || (length b <? n) then Panic else
        match parse_attrs_f f (skipn n b) with
        | Ok tl => Ok (mkavp (Z.of_N t) (skipn 2 (firstn n b)) :: tl)
        | r => r
        end
    | _ => Panic  (* b[1] on a buffer shorter than 2 *)
    end
  end.
Definition parse_attrs (b : bytes) : res attrs := parse_attrs_f (S (length b)) b.

(* ---- Add / Del / Lookup / Get / Set (attributes.go:53-111) ---- *)
Definition add (key : Z) (v : bytes) (l : attrs) : attrs := l ++ [mkavp key v].

(* for i := 0; i < lena; { if a[i].Type == key { a = append(a[:i], a[i+1:]...) } else { i++ } } *)
Fixpoint del_loop (fuel : nat) (key : Z) (i : nat) (l : attrs) : res attrs :=
  match fuel with
  | O => OutOfFuel
  | S f =>
    if i <? length l then
      match nth_error l i with
      | None => Panic
      | Some a => if (atype a =? key)%Z then del_loop f key i (remove_at i l)
                  else del_loop f key (S i) l
      end
    else Ok l
  end.
Definition del (key : Z) (l : attrs) : res attrs := del_loop (S (length l)) key 0 l.

Fixpoint lookup (key : Z) (l : attrs) : option bytes :=
  match l with
  | [] => None
  | a :: r => if (atype a =? key)%Z then Some (aval a) else lookup key r
  end.
Definition get (key : Z) (l : attrs) : bytes :=
  match lookup key l with Some v => v | None => [] end.

Fixpoint set_loop (fuel : nat) (key : Z) (v : bytes) (i : nat) (found : bool) (l : attrs) : res attrs :=
  match fuel with
  | O => OutOfFuel
  | S f =>
    if i <? length l then
      match nth_error l i with
      | None => Panic
      | Some a =>
        if (atype a =? key)%Z then
          if found then set_loop f key v i true (remove_at i l)
          else set_loop f key v (S i) true (update_at i (mkavp key v) l)
        else set_loop f key v (S i) found l
      end
    else Ok (if found then l else add key v l)
  end.
Definition set (key : Z) (v : bytes) (l : attrs) : res attrs :=
  set_loop (S (length l)) key v 0 false l.

(* ---- encodeTo / AttributesEncodedLen (attributes.go:113-140) ---- *)
Definition skip_type (g : list guard) (a : avp) : bool :=
  holds (gd g 0) (atype a) || holds (gd g 1) (atype a).

Definition tlv (a : avp) : bytes :=
  zbyte (atype a) :: zbyte (2 + zlen (aval a)) :: aval a.

(* writes into buf (the destination slice); returns the whole destination
   after the writes.  b[0]=, b[1]=, copy(b[2:], v), b = b[size:] *)
Fixpoint encode_to (l : attrs) (buf : bytes) : res bytes :=
  match l with
  | [] => Ok buf
  | a :: r =>
    if skip_type G_Attributes_encodeTo a || holds (gd G_Attributes_encodeTo 2) (zlen (aval a))
    then encode_to r buf
    else
      let size := 2 + length (aval a) in
      if length buf <? size then Panic else
      match encode_to r (skipn size buf) with
      | Ok rest => Ok (tlv a ++ rest)
      | e => e
      end
  end.

Fixpoint enc_len_acc (l : attrs) (n : nat) : res nat :=
  match l with
  | [] => Ok n
  | a :: r =>
    if skip_type G_AttributesEncodedLen a then enc_len_acc r n
    else if holds (gd G_AttributesEncodedLen 2) (zlen (aval a)) then Err E_attr_big
    else enc_len_acc r (n + (2 + length (aval a)))
  end.
Definition enc_len (l : attrs) : res nat := enc_len_acc l 0.
