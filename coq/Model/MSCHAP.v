(* Model/MSCHAP.v — rfc2759/mschapv2.go and rfc3079/mppe.go transcribed as
   compositions over the primitives SHA-1, MD4, single-block DES and the UTF-16LE
   encoder (section variables; Crypto/*.v in the driver).  Magic constants come
   from the Go source through Gen/Consts.v. *)
From Radius Require Import Base.Bytes Base.Guard Base.Res Gen.Consts.
Open Scope nat_scope.

Section P.
Variable SHA1 MD4 UTF16 : bytes -> bytes.
Variable DES : bytes -> bytes -> bytes.      (* key (8 bytes), block (8 bytes) *)

(* parityPadDESKey: in |= uint64(b[i]) << 8*(len-1-i); out[i] = byte(in >> 7*(7-i)) << 1; odd parity *)
Definition popcount (b : N) : nat := length (filter (fun i => N.testbit b (N.of_nat i)) (seq 0 8)).
Definition parity_pad (key : bytes) : bytes :=
  let inn := be_dec key in
  map (fun i =>
         let o := (((inn / 2 ^ N.of_nat (7 * (7 - i))) mod 256) * 2) mod 256 in
         if Nat.even (popcount o) then N.lor o 1 else o)%N
      (seq 0 8).

(* DESCrypt: 7-byte keys are parity-expanded *)
Definition des_crypt (key clear : bytes) : bytes :=
  let k := if holds (gd G_rfc2759_DESCrypt 0) (Z.of_nat (length key)) then parity_pad key else key in
  DES k (firstn 8 clear).

Definition challenge_hash (peer auth user : bytes) : bytes := firstn 8 (SHA1 (peer ++ auth ++ user)).
Definition nt_password_hash (pw : bytes) : bytes := MD4 pw.

(* ChallengeResponse: zero-pad the hash to 21 bytes, three DES encryptions *)
Definition challenge_response (challenge hash : bytes) : bytes :=
  let z := firstn 21 (hash ++ repeat 0%N 21) in
  des_crypt (firstn 7 z) challenge ++ des_crypt (firstn 7 (skipn 7 z)) challenge
  ++ des_crypt (firstn 7 (skipn 14 z)) challenge.

Definition generate_nt_response (auth peer user pw : bytes) : bytes :=
  challenge_response (challenge_hash peer auth user) (nt_password_hash (UTF16 pw)).

(* strings.ToUpper(hex.EncodeToString(digest)) *)
Definition hex_upper_digit (n : N) : N := if (n <? 10)%N then (48 + n)%N else (55 + n)%N.
Definition hex_upper (b : bytes) : bytes := flat_map (fun x => [hex_upper_digit (x / 16); hex_upper_digit (x mod 16)])%N b.

Definition generate_authenticator_response (auth peer ntresp user pw : bytes) : bytes :=
  let hh := nt_password_hash (nt_password_hash (UTF16 pw)) in
  let digest := SHA1 (hh ++ ntresp ++ B_rfc2759_magic1) in
  let challenge := challenge_hash peer auth user in
  [83; 61]%N ++ hex_upper (SHA1 (digest ++ challenge ++ B_rfc2759_magic2)).    (* "S=" *)

(* rfc3079 *)
Definition get_master_key (hh ntresp : bytes) : bytes := firstn 16 (SHA1 (hh ++ ntresp ++ B_rfc3079_magic1)).
Definition get_asymmetric_start_key (master : bytes) (keylen : nat) (is_send : bool) : res bytes :=
  if holds (gd G_rfc3079_GetAsymmetricStartKey 0) (Z.of_nat (length master)) then Err E_invalid else
  let d := SHA1 (master ++ B_rfc3079_shaPad1 ++ (if is_send then B_rfc3079_magic3 else B_rfc3079_magic2) ++ B_rfc3079_shaPad2) in
  if length d <? keylen then Panic else Ok (firstn keylen d).      (* digest[:sessionKeyLength] *)
Definition make_key (ntresp pw : bytes) (is_send : bool) : res bytes :=
  if holds (gd G_rfc3079_MakeKey 0) (Z.of_nat (length ntresp)) then Err E_invalid else
  let h := nt_password_hash (UTF16 pw) in
  get_asymmetric_start_key (get_master_key (nt_password_hash h) ntresp) (Z.to_nat K_rfc3079_KeyLength128Bit) is_send.
End P.
