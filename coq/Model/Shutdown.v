(* Model/Shutdown.v — synchronisation model of PacketServer.Serve / Shutdown
   (server-packet.go:61-79, 96-209, 240-262): one step per synchronisation
   point (mutex acquire/release, atomic counter operation, channel close,
   listener close, context cancel, go statement, user callback entry/exit).
   Any number of Serve calls, datagram goroutines and Shutdown calls.

   [legacy = true] is the ordering of the original code (Serve counts itself
   active only after releasing the mutex); [legacy = false] is the repaired
   ordering (counted under the mutex). *)
From Radius Require Import Base.Bytes Base.Res.
Open Scope nat_scope.

Inductive sret := RetShutdown | RetErr.        (* what Serve returns *)

Inductive spc :=
| S_start                 (* about to lock mu *)
| S_locked                (* holds mu: initLocked, test shutdownRequested *)
| S_reg                   (* holds mu: listener registered *)
| S_unl                   (* holds mu: about to unlock *)
| S_registered            (* hook point "serve.registered" *)
| S_reading               (* in the read loop, blocked in ReadFrom *)
| S_exit (r : sret)       (* deferred function: about to lock mu *)
| S_exit_locked (r : sret)(* holds mu: unregister *)
| S_exit_unl (r : sret)   (* about to activeDone *)
| S_returned (r : sret).

Inductive dpc :=
| D_start (drop : bool)   (* secret / verify / parse / dedup; drop = it will not reach the handler *)
| D_handler               (* inside Handler.ServeRADIUS *)
| D_exit                  (* deferred activeDone pending *)
| D_end.

Inductive hpc :=
| H_start | H_locked | H_close | H_cancel | H_dec | H_unlock
| H_wait                  (* hook point "shutdown.waiting" *)
| H_select                (* blocked in select { <-lastActive ; <-ctx.Done() } *)
| H_ret_nil | H_ret_err.

Inductive thread :=
| TServe (conn : nat) (pc : spc)
| TDgram (pc : dpc)
| TShut (pc : hpc) (expired : bool).

Record state := mkstate {
  mu : bool;              (* s.mu held *)
  shut : bool;            (* shutdownRequested *)
  active : Z;             (* activeCount *)
  closes : nat;           (* number of close(lastActive) executed; 2 = run-time panic *)
  sdec : bool;            (* Shutdown's extra activeDone has been executed *)
  regs : list nat;        (* s.listeners as a multiset of connection ids *)
  closedc : list nat;     (* connections Close() was called on *)
  cancelled : bool;       (* s.ctxDone() called *)
  threads : list thread
}.

Definition init : state := mkstate false false 0 0 false [] [] false [].

Inductive action :=
| ARun                          (* the thread's next program step *)
| ARead_datagram (drop : bool)  (* ReadFrom returned a datagram *)
| ARead_error (temporary : bool)(* ReadFrom returned an error *)
| AHandler_return               (* the user's handler returned *)
| AWake_nil | AWake_err         (* select fired *)
| AExpire.                      (* the caller's context ended *)

Section M.
Variable legacy : bool.

Definition set_thread (s : state) (i : nat) (t : thread) : state :=
  mkstate (mu s) (shut s) (active s) (closes s) (sdec s) (regs s) (closedc s) (cancelled s)
          (update_at i t (threads s)).

Definition with_mu (s : state) (b : bool) : state :=
  mkstate b (shut s) (active s) (closes s) (sdec s) (regs s) (closedc s) (cancelled s) (threads s).

Definition active_add (s : state) : state :=
  mkstate (mu s) (shut s) (active s + 1) (closes s) (sdec s) (regs s) (closedc s) (cancelled s) (threads s).

(* if atomic.AddInt32(&s.activeCount, -1) == -1 { close(s.lastActive) } *)
Definition active_done (s : state) : state :=
  let a := (active s - 1)%Z in
  mkstate (mu s) (shut s) a (if (a =? -1)%Z then S (closes s) else closes s) (sdec s) (regs s)
          (closedc s) (cancelled s) (threads s).

Fixpoint remove_one (c : nat) (l : list nat) : list nat :=
  match l with [] => [] | x :: r => if x =? c then r else x :: remove_one c r end.

Definition step_serve (s : state) (i : nat) (c : nat) (pc : spc) (a : action) : option state :=
  match pc, a with
  | S_start, ARun => if mu s then None else Some (set_thread (with_mu s true) i (TServe c S_locked))
  | S_locked, ARun =>
    if shut s then Some (set_thread (with_mu s false) i (TServe c (S_returned RetShutdown)))
    else Some (set_thread (mkstate (mu s) (shut s) (active s) (closes s) (sdec s) (c :: regs s)
                                   (closedc s) (cancelled s) (threads s)) i (TServe c S_reg))
  | S_reg, ARun => Some (set_thread (if legacy then s else active_add s) i (TServe c S_unl))
  | S_unl, ARun => Some (set_thread (with_mu s false) i (TServe c S_registered))
  | S_registered, ARun => Some (set_thread (if legacy then active_add s else s) i (TServe c S_reading))
  | S_reading, ARead_datagram drop =>
    let s1 := active_add s in
    Some (mkstate (mu s1) (shut s1) (active s1) (closes s1) (sdec s1) (regs s1) (closedc s1) (cancelled s1)
                  (threads s1 ++ [TDgram (D_start drop)]))
  | S_reading, ARead_error temp =>
    if shut s then Some (set_thread s i (TServe c (S_exit RetShutdown)))
    else if temp then Some s
    else Some (set_thread s i (TServe c (S_exit RetErr)))
  | S_exit r, ARun => if mu s then None else Some (set_thread (with_mu s true) i (TServe c (S_exit_locked r)))
  | S_exit_locked r, ARun =>
    Some (set_thread (mkstate false (shut s) (active s) (closes s) (sdec s) (remove_one c (regs s))
                              (closedc s) (cancelled s) (threads s)) i (TServe c (S_exit_unl r)))
  | S_exit_unl r, ARun => Some (set_thread (active_done s) i (TServe c (S_returned r)))
  | _, _ => None
  end.

Definition step_dgram (s : state) (i : nat) (pc : dpc) (a : action) : option state :=
  match pc, a with
  | D_start drop, ARun => Some (set_thread s i (TDgram (if drop then D_exit else D_handler)))
  | D_handler, AHandler_return => Some (set_thread s i (TDgram D_exit))
  | D_exit, ARun => Some (set_thread (active_done s) i (TDgram D_end))
  | _, _ => None
  end.

Definition step_shut (s : state) (i : nat) (pc : hpc) (e : bool) (a : action) : option state :=
  match pc, a with
  | _, AExpire => Some (set_thread s i (TShut pc true))
  | H_start, ARun => if mu s then None else Some (set_thread (with_mu s true) i (TShut H_locked e))
  | H_locked, ARun =>       (* atomic.CompareAndSwapInt32(&s.shutdownRequested, 0, 1) *)
    if shut s then Some (set_thread s i (TShut H_unlock e))
    else Some (set_thread (mkstate (mu s) true (active s) (closes s) (sdec s) (regs s) (closedc s)
                                   (cancelled s) (threads s)) i (TShut H_close e))
  | H_close, ARun =>        (* for listener := range s.listeners { listener.Close() } *)
    Some (set_thread (mkstate (mu s) (shut s) (active s) (closes s) (sdec s) (regs s) (regs s ++ closedc s)
                              (cancelled s) (threads s)) i (TShut H_cancel e))
  | H_cancel, ARun =>
    Some (set_thread (mkstate (mu s) (shut s) (active s) (closes s) (sdec s) (regs s) (closedc s)
                              true (threads s)) i (TShut H_dec e))
  | H_dec, ARun =>
    let s1 := active_done s in
    Some (set_thread (mkstate (mu s1) (shut s1) (active s1) (closes s1) true (regs s1) (closedc s1)
                              (cancelled s1) (threads s1)) i (TShut H_unlock e))
  | H_unlock, ARun => Some (set_thread (with_mu s false) i (TShut H_wait e))
  | H_wait, ARun => Some (set_thread s i (TShut H_select e))
  | H_select, AWake_nil => if 0 <? closes s then Some (set_thread s i (TShut H_ret_nil e)) else None
  | H_select, AWake_err => if e then Some (set_thread s i (TShut H_ret_err e)) else None
  | _, _ => None
  end.

Definition step (s : state) (i : nat) (a : action) : option state :=
  match nth_error (threads s) i with
  | Some (TServe c pc) => step_serve s i c pc a
  | Some (TDgram pc) => step_dgram s i pc a
  | Some (TShut pc e) => step_shut s i pc e a
  | None => None
  end.

(* the environment starts new calls *)
Inductive event :=
| EStep (i : nat) (a : action)
| ESpawnServe (conn : nat)
| ESpawnShutdown.

Definition add_thread (s : state) (t : thread) : state :=
  mkstate (mu s) (shut s) (active s) (closes s) (sdec s) (regs s) (closedc s) (cancelled s) (threads s ++ [t]).

Definition do_event (s : state) (e : event) : option state :=
  match e with
  | EStep i a => step s i a
  | ESpawnServe c => Some (add_thread s (TServe c S_start))
  | ESpawnShutdown => Some (add_thread s (TShut H_start false))
  end.

(* a run: events that are not enabled are skipped *)
Fixpoint run (s : state) (es : list event) : state :=
  match es with
  | [] => s
  | e :: r => match do_event s e with Some s' => run s' r | None => run s r end
  end.

Inductive reachable : state -> Prop :=
| reach_init : reachable init
| reach_step s e s' : reachable s -> do_event s e = Some s' -> reachable s'.
End M.
