(* Model/Dispatch.v — per-datagram goroutine of PacketServer.Serve
   (server-packet.go:148-205) and packetResponseWriter.Write (server-packet.go:12-27).
   Everything before requestsLock.Lock() touches only goroutine-local data, so a
   goroutine is: decide (pure) -> check/insert under the lock -> handler ->
   delete under the lock.  Events are the lock steps and handler returns of any
   number of goroutines of one Serve call, in any order. *)
From Radius Require Import Base.Bytes Base.Guard Base.Res Gen.Consts Model.Attrs Model.Packet.
Open Scope nat_scope.

Definition key := (N * N)%type.          (* (remote address, identifier) *)
Definition key_eqb (a b : key) : bool := (fst a =? fst b)%N && (snd a =? snd b)%N.

Inductive gstate :=
| GDropped                 (* returned before reaching the handler *)
| GRun (k : key)           (* inside Handler.ServeRADIUS *)
| GClean (k : key)         (* handler returned, deferred delete pending *)
| GDone.

Record dstate := mkd { inflight : list key; gs : list gstate }.
Definition dinit : dstate := mkd [] [].

Inductive secret_res := SecErr | Sec (s : bytes).

Section S.
Variable H : bytes -> bytes.
Variable skip_verify : bool.                 (* s.InsecureSkipVerify *)
Variable secret_of : N -> secret_res.        (* s.SecretSource.RADIUSSecret *)

(* the request handed to the handler *)
Record request := mkreq { r_packet : packet; r_remote : N }.

(* secret lookup, IsAuthenticRequest, Parse: no shared state *)
Definition decide (from : N) (d : bytes) : option request :=
  match secret_of from with
  | SecErr => None
  | Sec sec =>
    if holds (gd G_PacketServer_Serve 3) (zlen sec) then None else
    if negb skip_verify && negb (is_authentic_request H d sec) then None else
    match parse d sec with
    | Ok p => Some (mkreq p from)
    | _ => None
    end
  end.

Definition mem (k : key) (l : list key) : bool := existsb (key_eqb k) l.
Fixpoint delete (k : key) (l : list key) : list key :=      (* delete(requests, key) *)
  match l with [] => [] | x :: r => if key_eqb k x then delete k r else x :: delete k r end.

Inductive devent :=
| DArrive (from : N) (d : bytes)   (* the goroutine of a datagram reaches the lock (or returns early) *)
| DReturn (g : nat)                (* the handler of goroutine g returns *)
| DClean (g : nat).                (* goroutine g runs its deferred delete *)

Inductive dout := ODropped | ODispatched (r : request) | ONone.

Definition dstep (s : dstate) (e : devent) : dstate * dout :=
  match e with
  | DArrive from d =>
    match decide from d with
    | None => (mkd (inflight s) (gs s ++ [GDropped]), ODropped)
    | Some r =>
      let k := (from, ident (r_packet r)) in
      if mem k (inflight s) then (mkd (inflight s) (gs s ++ [GDropped]), ODropped)
      else (mkd (k :: inflight s) (gs s ++ [GRun k]), ODispatched r)
    end
  | DReturn g =>
    match nth_error (gs s) g with
    | Some (GRun k) => (mkd (inflight s) (update_at g (GClean k) (gs s)), ONone)
    | _ => (s, ONone)
    end
  | DClean g =>
    match nth_error (gs s) g with
    | Some (GClean k) => (mkd (delete k (inflight s)) (update_at g GDone (gs s)), ONone)
    | _ => (s, ONone)
    end
  end.

Fixpoint drun (s : dstate) (es : list devent) : dstate * list dout :=
  match es with
  | [] => (s, [])
  | e :: r => let '(s1, o) := dstep s e in let '(s2, os) := drun s1 r in (s2, o :: os)
  end.

(* packetResponseWriter.Write: Encode, then WriteTo(conn, remote address) *)
Definition response_write (r : request) (reply : packet) : res (N * bytes) :=
  match encode H reply with
  | Ok w => Ok (r_remote r, w)
  | Err e => Err e | Panic => Panic | OutOfFuel => OutOfFuel
  end.
End S.
