(* Model/Vendor.v — the vendor helpers emitted by dictionarygen/vendor.go
   (_AddVendor, _GetsVendor, _LookupVendor, _SetVendor, _DelVendor), on packets
   whose Vendor-Specific payloads are arbitrary bytes.  All five Go functions walk
   a payload with the same loop; [walk] is that loop (fuel = payload length). *)
From Radius Require Import Base.Bytes Base.Guard Base.Res Gen.Consts Model.Attrs Model.Codecs.
Open Scope nat_scope.

Definition VSA_TYPE : Z := 26.      (* rfc2865.VendorSpecific_Type *)

(* for len(vsa) >= 3 { t, l := vsa[0], vsa[1]; if int(l) > len(vsa) || l < 3 { break }; ...; vsa = vsa[l:] }
   returns the well-formed sub-attributes (type, whole TLV bytes) and the unparsed remainder *)
Fixpoint walk (fuel : nat) (vsa : bytes) : list (N * bytes) * bytes :=
  match fuel with
  | O => ([], vsa)
  | S f =>
    match vsa with
    | t :: l :: _ :: _ =>
      let n := N.to_nat l in
      if (length vsa <? n) || (n <? 3) then ([], vsa)
      else let '(subs, rest) := walk f (skipn n vsa) in ((t, firstn n vsa) :: subs, rest)
    | _ => ([], vsa)
    end
  end.
Definition subattrs (payload : bytes) := walk (length payload) payload.

(* the payload of a Vendor-Specific attribute of vendor [vid], if it is one *)
Definition vsa_payload (vid : N) (a : avp) : option bytes :=
  if negb (atype a =? VSA_TYPE)%Z then None else
  match vendor_specific (aval a) with
  | Ok (id, payload) => if (id =? vid)%N then Some payload else None
  | _ => None
  end.

(* _GetsVendor / _LookupVendor *)
Definition values_of (typ : N) (subs : list (N * bytes)) : list bytes :=
  map (fun s => skipn 2 (snd s)) (filter (fun s => (fst s =? typ)%N) subs).
Definition gets_vendor (vid typ : N) (l : attrs) : list bytes :=
  flat_map (fun a => match vsa_payload vid a with
                     | Some payload => values_of typ (fst (subattrs payload))
                     | None => []
                     end) l.
Definition lookup_vendor (vid typ : N) (l : attrs) : option bytes :=
  match gets_vendor vid typ l with v :: _ => Some v | [] => None end.

(* _AddVendor *)
Definition vendor_tlv (typ : N) (a : bytes) : bytes := typ :: zbyte (2 + zlen a) :: a.
Definition add_vendor (vid typ : N) (a : bytes) (l : attrs) : res attrs :=
  if length a =? 0 then Err E_invalid else
  match new_vendor_specific vid (vendor_tlv typ a) with
  | Ok vsa => Ok (add VSA_TYPE vsa l)
  | Err e => Err e | Panic => Panic | OutOfFuel => OutOfFuel
  end.

(* _DelVendor: rebuild every Vendor-Specific attribute of the vendor without the
   matching well-formed sub-attributes; keep the remainder; drop it when empty *)
Definition strip (typ : N) (payload : bytes) : bool * bytes :=
  let '(subs, rest) := subattrs payload in
  (existsb (fun s => (fst s =? typ)%N) subs,
   flat_map snd (filter (fun s => negb (fst s =? typ)%N) subs) ++ rest).
Fixpoint del_vendor (vid typ : N) (l : attrs) : attrs :=
  match l with
  | [] => []
  | a :: r =>
    match vsa_payload vid a with
    | Some payload =>
      let '(removed, kept) := strip typ payload in
      if negb removed then a :: del_vendor vid typ r
      else match kept with
           | [] => del_vendor vid typ r
           | _ => mkavp (atype a) (firstn 4 (aval a) ++ kept) :: del_vendor vid typ r
           end
    | None => a :: del_vendor vid typ r
    end
  end.

(* _SetVendor: validate first, then Del, then Add *)
Definition set_vendor (vid typ : N) (a : bytes) (l : attrs) : res attrs :=
  if length a =? 0 then Err E_invalid else
  match new_vendor_specific vid (vendor_tlv typ a) with
  | Ok vsa => Ok (add VSA_TYPE vsa (del_vendor vid typ l))
  | Err e => Err e | Panic => Panic | OutOfFuel => OutOfFuel
  end.
