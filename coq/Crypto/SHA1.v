(* ------------------------------------------------------------------ *)
(*  SHA-1 (FIPS 180-4 / RFC 3174) as an executable, total Gallina      *)
(*  function.                                                          *)
(*                                                                    *)
(*  Conventions: a byte is an [N] with value < 256, a byte string is  *)
(*  a [list N].  32-bit words are [N] values < 2^32; all word          *)
(*  arithmetic is masked explicitly.  Input bytes are reduced modulo  *)
(*  256 ([N.land _ 255]) when they are packed into words, so [sha1]    *)
(*  is total on arbitrary [list N].                                    *)
(*                                                                    *)
(*  Exported:                                                          *)
(*    sha1        : list N -> list N                                   *)
(*    sha1_length : forall m, length (sha1 m) = 20%nat                 *)
(*    sha1_bytes  : forall m, Forall (fun b => (b < 256)%N) (sha1 m)   *)
(* ------------------------------------------------------------------ *)

From Coq Require Import NArith List Lia ZifyN ZifyNat.
Import ListNotations.
Local Open Scope N_scope.

(* ---------- 32-bit word helpers ---------- *)

Definition sha1_mask32 : N := 0xffffffff.

Definition sha1_add32 (a b : N) : N := N.land (a + b) sha1_mask32.

Definition sha1_not32 (a : N) : N := N.lxor (N.land a sha1_mask32) sha1_mask32.

(* rotate left by s, 0 < s < 32, on a word < 2^32 *)
Definition sha1_rotl32 (x s : N) : N :=
  N.lor (N.land (N.shiftl x s) sha1_mask32) (N.shiftr x (32 - s)).

(* ---------- byte <-> word serialisation (big endian) ---------- *)

Definition sha1_byte0 (w : N) : N := N.land (N.shiftr w 24) 255.
Definition sha1_byte1 (w : N) : N := N.land (N.shiftr w 16) 255.
Definition sha1_byte2 (w : N) : N := N.land (N.shiftr w 8) 255.
Definition sha1_byte3 (w : N) : N := N.land w 255.

Definition sha1_word_be (a b c d : N) : N :=
  N.lor (N.shiftl (N.land a 255) 24)
    (N.lor (N.shiftl (N.land b 255) 16)
       (N.lor (N.shiftl (N.land c 255) 8) (N.land d 255))).

(* Packs groups of four bytes into big-endian words; a trailing group
   of fewer than four bytes is dropped (never happens on padded input,
   whose length is a multiple of 64). *)
Fixpoint sha1_words_be (l : list N) : list N :=
  match l with
  | a :: b :: c :: d :: tl => sha1_word_be a b c d :: sha1_words_be tl
  | _ => []
  end.

(* ---------- padding ---------- *)

(* number of zero bytes after the 0x80 marker, for a message of n bytes *)
Definition sha1_pad_zeros (n : N) : nat := N.to_nat ((119 - n mod 64) mod 64).

Definition sha1_len_bytes_be (bits : N) : list N :=
  [ N.land (N.shiftr bits 56) 255;
    N.land (N.shiftr bits 48) 255;
    N.land (N.shiftr bits 40) 255;
    N.land (N.shiftr bits 32) 255;
    N.land (N.shiftr bits 24) 255;
    N.land (N.shiftr bits 16) 255;
    N.land (N.shiftr bits 8) 255;
    N.land bits 255 ].

Definition sha1_pad (msg : list N) : list N :=
  let n := N.of_nat (length msg) in
  msg ++ 128 :: repeat 0 (sha1_pad_zeros n) ++ sha1_len_bytes_be (8 * n).

(* ---------- compression function ---------- *)

Definition sha1_state : Type := (N * N * N * N * N)%type.

Definition sha1_init_state : sha1_state :=
  (0x67452301, 0xefcdab89, 0x98badcfe, 0x10325476, 0xc3d2e1f0).

Definition sha1_ch (b c d : N) : N :=
  N.lor (N.land b c) (N.land (sha1_not32 b) d).
Definition sha1_parity (b c d : N) : N := N.lxor b (N.lxor c d).
Definition sha1_maj (b c d : N) : N :=
  N.lor (N.land b c) (N.lor (N.land b d) (N.land c d)).

(* Message schedule.  [win] is the sliding window W[t..t+15]; emits
   [n] words W[t], W[t+1], ... *)
Fixpoint sha1_schedule (n : nat) (win : list N) : list N :=
  match n with
  | O => []
  | S n' =>
      match win with
      | [] => []
      | w0 :: rest =>
          let x := N.lxor (N.lxor (nth 13 win 0) (nth 8 win 0))
                          (N.lxor (nth 2 win 0) w0) in
          w0 :: sha1_schedule n' (rest ++ [sha1_rotl32 x 1])
      end
  end.

Definition sha1_f (t : nat) (b c d : N) : N :=
  if Nat.ltb t 20 then sha1_ch b c d
  else if Nat.ltb t 40 then sha1_parity b c d
  else if Nat.ltb t 60 then sha1_maj b c d
  else sha1_parity b c d.

Definition sha1_k (t : nat) : N :=
  if Nat.ltb t 20 then 0x5a827999
  else if Nat.ltb t 40 then 0x6ed9eba1
  else if Nat.ltb t 60 then 0x8f1bbcdc
  else 0xca62c1d6.

Definition sha1_step (t : nat) (st : sha1_state) (w : N) : sha1_state :=
  let '(a, b, c, d, e) := st in
  let tmp :=
    sha1_add32 (sha1_add32 (sha1_add32 (sha1_add32 (sha1_rotl32 a 5)
                                                   (sha1_f t b c d)) e)
                           (sha1_k t)) w in
  (tmp, a, sha1_rotl32 b 30, c, d).

Fixpoint sha1_rounds (t : nat) (ws : list N) (st : sha1_state) : sha1_state :=
  match ws with
  | [] => st
  | w :: tl => sha1_rounds (S t) tl (sha1_step t st w)
  end.

Definition sha1_compress (st : sha1_state) (M : list N) : sha1_state :=
  let '(a0, b0, c0, d0, e0) := st in
  let '(a, b, c, d, e) := sha1_rounds 0 (sha1_schedule 80 M) st in
  (sha1_add32 a0 a, sha1_add32 b0 b, sha1_add32 c0 c,
   sha1_add32 d0 d, sha1_add32 e0 e).

(* Processes 16 words per iteration; [fuel] only has to be at least the
   number of blocks ([sha1] passes the number of words). *)
Fixpoint sha1_process (fuel : nat) (st : sha1_state) (ws : list N)
  : sha1_state :=
  match fuel with
  | O => st
  | S fuel' =>
      match ws with
      | [] => st
      | _ :: _ =>
          sha1_process fuel' (sha1_compress st (firstn 16 ws)) (skipn 16 ws)
      end
  end.

Definition sha1_serialize (st : sha1_state) : list N :=
  let '(a, b, c, d, e) := st in
  [ sha1_byte0 a; sha1_byte1 a; sha1_byte2 a; sha1_byte3 a;
    sha1_byte0 b; sha1_byte1 b; sha1_byte2 b; sha1_byte3 b;
    sha1_byte0 c; sha1_byte1 c; sha1_byte2 c; sha1_byte3 c;
    sha1_byte0 d; sha1_byte1 d; sha1_byte2 d; sha1_byte3 d;
    sha1_byte0 e; sha1_byte1 e; sha1_byte2 e; sha1_byte3 e ].

Definition sha1 (msg : list N) : list N :=
  let ws := sha1_words_be (sha1_pad msg) in
  sha1_serialize (sha1_process (length ws) sha1_init_state ws).

(* ---------- structural lemmas ---------- *)

Lemma sha1_land_255_lt : forall x : N, N.land x 255 < 256.
Proof.
  intro x.
  change 255 with (N.ones 8).
  rewrite N.land_ones.
  apply N.mod_lt. discriminate.
Qed.

Lemma sha1_serialize_length : forall st, length (sha1_serialize st) = 20%nat.
Proof.
  intros [[[[a b] c] d] e]. reflexivity.
Qed.

Lemma sha1_serialize_bytes :
  forall st, Forall (fun b => b < 256) (sha1_serialize st).
Proof.
  intros [[[[a b] c] d] e].
  unfold sha1_serialize, sha1_byte0, sha1_byte1, sha1_byte2, sha1_byte3.
  repeat (apply Forall_cons; [ apply sha1_land_255_lt | ]).
  apply Forall_nil.
Qed.

Lemma sha1_length : forall m, length (sha1 m) = 20%nat.
Proof.
  intro m. unfold sha1. apply sha1_serialize_length.
Qed.

Lemma sha1_bytes : forall m, Forall (fun b => (b < 256)%N) (sha1 m).
Proof.
  intro m. unfold sha1. apply sha1_serialize_bytes.
Qed.

(* The padded message always has a length that is a multiple of 64
   bytes (so [sha1_words_be] drops nothing and every block is complete). *)
Lemma sha1_pad_length : forall m,
  (N.of_nat (length (sha1_pad m)) mod 64 = 0)%N.
Proof.
  intro m. unfold sha1_pad, sha1_pad_zeros.
  rewrite app_length. cbn [length].
  rewrite app_length, repeat_length. cbn [length sha1_len_bytes_be].
  lia.
Qed.

(* ---------- known-answer tests (FIPS 180 / RFC 3174) ---------- *)

(* SHA1 ("abc") = a9993e364706816aba3e25717850c26c9cd0d89d *)
Example sha1_kat_1 :
  sha1 [0x61; 0x62; 0x63]
  = [0xa9; 0x99; 0x3e; 0x36; 0x47; 0x06; 0x81; 0x6a; 0xba; 0x3e; 0x25; 0x71; 0x78; 0x50; 0xc2; 0x6c; 0x9c; 0xd0; 0xd8; 0x9d].
Proof. vm_compute. reflexivity. Qed.

(* SHA1 ("") = da39a3ee5e6b4b0d3255bfef95601890afd80709 *)
Example sha1_kat_2 :
  sha1 []
  = [0xda; 0x39; 0xa3; 0xee; 0x5e; 0x6b; 0x4b; 0x0d; 0x32; 0x55; 0xbf; 0xef; 0x95; 0x60; 0x18; 0x90; 0xaf; 0xd8; 0x07; 0x09].
Proof. vm_compute. reflexivity. Qed.

(* SHA1 ("abcdbcdecdefdefgefghfghighijhijkijkljklmklmnlmnomnopnopq") = 84983e441c3bd26ebaae4aa1f95129e5e54670f1 *)
Example sha1_kat_3 :
  sha1 [0x61; 0x62; 0x63; 0x64; 0x62; 0x63; 0x64; 0x65; 0x63; 0x64; 0x65; 0x66; 0x64; 0x65; 0x66; 0x67; 0x65; 0x66; 0x67; 0x68; 0x66; 0x67; 0x68; 0x69; 0x67; 0x68; 0x69; 0x6a; 0x68; 0x69; 0x6a; 0x6b; 0x69; 0x6a; 0x6b; 0x6c; 0x6a; 0x6b; 0x6c; 0x6d; 0x6b; 0x6c; 0x6d; 0x6e; 0x6c; 0x6d; 0x6e; 0x6f; 0x6d; 0x6e; 0x6f; 0x70; 0x6e; 0x6f; 0x70; 0x71]
  = [0x84; 0x98; 0x3e; 0x44; 0x1c; 0x3b; 0xd2; 0x6e; 0xba; 0xae; 0x4a; 0xa1; 0xf9; 0x51; 0x29; 0xe5; 0xe5; 0x46; 0x70; 0xf1].
Proof. vm_compute. reflexivity. Qed.

Print Assumptions sha1_length.
Print Assumptions sha1_bytes.
Print Assumptions sha1_pad_length.
