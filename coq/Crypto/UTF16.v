(* ------------------------------------------------------------------ *)
(*  UTF-8 -> UTF-16LE transcoding, reproducing                         *)
(*                                                                    *)
(*    golang.org/x/text/encoding/unicode                               *)
(*      .UTF16(LittleEndian, IgnoreBOM).NewEncoder().Bytes(in)         *)
(*                                                                    *)
(*  (which is what layeh.com/radius/rfc2759.ToUTF16 calls).  The       *)
(*  encoder decodes its input with Go's [utf8.DecodeRune]: every       *)
(*  invalid byte / sequence (stray continuation byte, overlong form,   *)
(*  UTF-8 encoded surrogate D800..DFFF, value above 10FFFF, truncated  *)
(*  sequence, bytes C0 C1 F5..FF) consumes exactly ONE byte and yields *)
(*  U+FFFD, and decoding resumes at the next byte.  Each code point is *)
(*  then written as one UTF-16 code unit, or as a surrogate pair for   *)
(*  code points >= 0x10000, little endian, without BOM.  The encoder   *)
(*  never fails.                                                       *)
(*                                                                    *)
(*  Conventions: a byte is an [N] with value < 256, a byte string is  *)
(*  a [list N].  An input element >= 256 is treated like an invalid    *)
(*  byte (it yields U+FFFD).                                           *)
(*                                                                    *)
(*  Exported:                                                          *)
(*    utf8_to_utf16le        : list N -> list N                        *)
(*    utf8_to_utf16le_bytes  : forall s,                               *)
(*        Forall (fun b => (b < 256)%N) (utf8_to_utf16le s)            *)
(*    utf8_to_utf16le_ascii  : forall s,                               *)
(*        Forall (fun b => (b < 128)%N) s ->                           *)
(*        utf8_to_utf16le s = flat_map (fun b => [b; 0%N]) s           *)
(*    utf8_to_utf16le_ascii_length : forall s,                         *)
(*        Forall (fun b => (b < 128)%N) s ->                           *)
(*        length (utf8_to_utf16le s) = (2 * length s)%nat              *)
(* ------------------------------------------------------------------ *)

From Coq Require Import NArith Bool List Lia ZifyN ZifyNat.
Import ListNotations.
Local Open Scope N_scope.

(* ---------- utf8.DecodeRune ---------- *)

Definition utf16_rune_error : N := 0xfffd.

Definition utf16_in_range (lo hi b : N) : bool := (lo <=? b) && (b <=? hi).

(* continuation byte 80..BF *)
Definition utf16_cont (b : N) : bool := utf16_in_range 0x80 0xbf b.

Definition utf16_invalid : N * nat := (utf16_rune_error, 1%nat).

(* [utf16_decode b0 tl] = utf8.DecodeRune (b0 :: tl), as (rune, size).
   The accept ranges for the second byte are those of Go's
   [acceptRanges] table (they exclude overlong forms, surrogates and
   values above 10FFFF). *)
Definition utf16_decode (b0 : N) (tl : list N) : N * nat :=
  if b0 <? 0x80 then (b0, 1%nat)
  else if b0 <? 0xc2 then utf16_invalid            (* 80..C1 *)
  else if b0 <? 0xe0 then                          (* C2..DF : 2 bytes *)
    match tl with
    | b1 :: _ =>
        if utf16_cont b1
        then (N.lor (N.shiftl (N.land b0 0x1f) 6) (N.land b1 0x3f), 2%nat)
        else utf16_invalid
    | _ => utf16_invalid
    end
  else if b0 <? 0xf0 then                          (* E0..EF : 3 bytes *)
    let lo := if b0 =? 0xe0 then 0xa0 else 0x80 in
    let hi := if b0 =? 0xed then 0x9f else 0xbf in
    match tl with
    | b1 :: b2 :: _ =>
        if utf16_in_range lo hi b1 && utf16_cont b2
        then (N.lor (N.shiftl (N.land b0 0x0f) 12)
                (N.lor (N.shiftl (N.land b1 0x3f) 6) (N.land b2 0x3f)), 3%nat)
        else utf16_invalid
    | _ => utf16_invalid
    end
  else if b0 <? 0xf5 then                          (* F0..F4 : 4 bytes *)
    let lo := if b0 =? 0xf0 then 0x90 else 0x80 in
    let hi := if b0 =? 0xf4 then 0x8f else 0xbf in
    match tl with
    | b1 :: b2 :: b3 :: _ =>
        if utf16_in_range lo hi b1 && utf16_cont b2 && utf16_cont b3
        then (N.lor (N.shiftl (N.land b0 0x07) 18)
                (N.lor (N.shiftl (N.land b1 0x3f) 12)
                   (N.lor (N.shiftl (N.land b2 0x3f) 6) (N.land b3 0x3f))),
              4%nat)
        else utf16_invalid
    | _ => utf16_invalid
    end
  else utf16_invalid.                              (* F5..FF and >= 256 *)

(* ---------- UTF-16LE output ---------- *)

(* one 16-bit code unit, low byte first *)
Definition utf16_unit_le (u : N) : list N :=
  [ N.land u 255; N.land (N.shiftr u 8) 255 ].

Definition utf16_emit (r : N) : list N :=
  if r <? 0x10000 then utf16_unit_le r
  else
    let r' := r - 0x10000 in
    utf16_unit_le (0xd800 + N.land (N.shiftr r' 10) 0x3ff)
      ++ utf16_unit_le (0xdc00 + N.land r' 0x3ff).

(* ---------- the transcoder ---------- *)

(* Structural recursion on the input; [skip] is the number of bytes
   still to be skipped because they belong to the rune decoded last. *)
Fixpoint utf16_go (skip : nat) (s : list N) : list N :=
  match s with
  | [] => []
  | b0 :: tl =>
      match skip with
      | S k => utf16_go k tl
      | O =>
          let '(r, size) := utf16_decode b0 tl in
          utf16_emit r ++ utf16_go (pred size) tl
      end
  end.

Definition utf8_to_utf16le (s : list N) : list N := utf16_go 0 s.

(* ---------- lemmas ---------- *)

Lemma utf16_land_255_lt : forall x : N, N.land x 255 < 256.
Proof.
  intro x.
  change 255 with (N.ones 8).
  rewrite N.land_ones.
  apply N.mod_lt. discriminate.
Qed.

Lemma utf16_unit_le_bytes :
  forall u, Forall (fun b => b < 256) (utf16_unit_le u).
Proof.
  intro u. unfold utf16_unit_le.
  repeat (apply Forall_cons; [ apply utf16_land_255_lt | ]).
  apply Forall_nil.
Qed.

Lemma utf16_emit_bytes : forall r, Forall (fun b => b < 256) (utf16_emit r).
Proof.
  intro r. unfold utf16_emit.
  destruct (r <? 0x10000).
  - apply utf16_unit_le_bytes.
  - apply Forall_app. split; apply utf16_unit_le_bytes.
Qed.

Lemma utf16_go_bytes :
  forall s skip, Forall (fun b => b < 256) (utf16_go skip s).
Proof.
  induction s as [| b0 tl IH]; intro skip.
  - apply Forall_nil.
  - cbn [utf16_go]. destruct skip as [| k].
    + destruct (utf16_decode b0 tl) as [r size].
      apply Forall_app. split.
      * apply utf16_emit_bytes.
      * apply IH.
    + apply IH.
Qed.

Lemma utf8_to_utf16le_bytes :
  forall s, Forall (fun b => (b < 256)%N) (utf8_to_utf16le s).
Proof.
  intro s. apply utf16_go_bytes.
Qed.

Lemma utf16_emit_ascii : forall b, b < 128 -> utf16_emit b = [b; 0].
Proof.
  intros b Hb. unfold utf16_emit.
  assert (Hlt : (b <? 0x10000) = true) by (apply N.ltb_lt; lia).
  rewrite Hlt. unfold utf16_unit_le.
  change 255 with (N.ones 8).
  rewrite !N.land_ones, N.shiftr_div_pow2.
  change (2 ^ 8) with 256.
  f_equal; [ | f_equal ].
  - apply N.mod_small. lia.
  - rewrite (N.div_small b 256) by lia. reflexivity.
Qed.

Lemma utf8_to_utf16le_ascii : forall s,
  Forall (fun b => (b < 128)%N) s ->
  utf8_to_utf16le s = flat_map (fun b => [b; 0%N]) s.
Proof.
  unfold utf8_to_utf16le.
  induction s as [| b0 tl IH]; intro Hall.
  - reflexivity.
  - inversion Hall as [| x l Hb0 Htl]; subst.
    cbn [utf16_go flat_map]. unfold utf16_decode.
    assert (Hlt : (b0 <? 0x80) = true) by (apply N.ltb_lt; lia).
    rewrite Hlt. cbn [pred].
    rewrite utf16_emit_ascii by exact Hb0.
    rewrite IH by exact Htl. reflexivity.
Qed.

Lemma utf8_to_utf16le_ascii_length : forall s,
  Forall (fun b => (b < 128)%N) s ->
  length (utf8_to_utf16le s) = (2 * length s)%nat.
Proof.
  intros s Hall. rewrite utf8_to_utf16le_ascii by exact Hall.
  clear Hall. induction s as [| b0 tl IH].
  - reflexivity.
  - cbn [flat_map app length]. rewrite IH. lia.
Qed.

(* ---------- examples ---------- *)

(* "clientPass" *)
Example utf16_ex_ascii :
  utf8_to_utf16le [0x63; 0x6c; 0x69; 0x65; 0x6e; 0x74; 0x50; 0x61; 0x73; 0x73]
  = [0x63; 0; 0x6c; 0; 0x69; 0; 0x65; 0; 0x6e; 0; 0x74; 0; 0x50; 0;
     0x61; 0; 0x73; 0; 0x73; 0].
Proof. vm_compute. reflexivity. Qed.

Example utf16_ex_empty : utf8_to_utf16le [] = [].
Proof. vm_compute. reflexivity. Qed.

(* U+00E9 *)
Example utf16_ex_2byte : utf8_to_utf16le [0xc3; 0xa9] = [0xe9; 0x00].
Proof. vm_compute. reflexivity. Qed.

(* U+20AC *)
Example utf16_ex_3byte : utf8_to_utf16le [0xe2; 0x82; 0xac] = [0xac; 0x20].
Proof. vm_compute. reflexivity. Qed.

(* U+1F600 -> D83D DE00 *)
Example utf16_ex_4byte :
  utf8_to_utf16le [0xf0; 0x9f; 0x98; 0x80] = [0x3d; 0xd8; 0x00; 0xde].
Proof. vm_compute. reflexivity. Qed.

(* U+10FFFF -> DBFF DFFF *)
Example utf16_ex_max :
  utf8_to_utf16le [0xf4; 0x8f; 0xbf; 0xbf] = [0xff; 0xdb; 0xff; 0xdf].
Proof. vm_compute. reflexivity. Qed.

(* U+110000 is out of range: four invalid bytes *)
Example utf16_ex_too_big :
  utf8_to_utf16le [0xf4; 0x90; 0x80; 0x80]
  = [0xfd; 0xff; 0xfd; 0xff; 0xfd; 0xff; 0xfd; 0xff].
Proof. vm_compute. reflexivity. Qed.

Example utf16_ex_invalid_ff : utf8_to_utf16le [0xff] = [0xfd; 0xff].
Proof. vm_compute. reflexivity. Qed.

Example utf16_ex_overlong :
  utf8_to_utf16le [0xc0; 0x80] = [0xfd; 0xff; 0xfd; 0xff].
Proof. vm_compute. reflexivity. Qed.

Example utf16_ex_truncated :
  utf8_to_utf16le [0xe2; 0x82] = [0xfd; 0xff; 0xfd; 0xff].
Proof. vm_compute. reflexivity. Qed.

(* UTF-8 encoded surrogate U+D800 *)
Example utf16_ex_surrogate :
  utf8_to_utf16le [0xed; 0xa0; 0x80] = [0xfd; 0xff; 0xfd; 0xff; 0xfd; 0xff].
Proof. vm_compute. reflexivity. Qed.

(* decoding resumes right after an invalid lead byte: E2 'a' 'b' *)
Example utf16_ex_resume :
  utf8_to_utf16le [0xe2; 0x61; 0x62] = [0xfd; 0xff; 0x61; 0x00; 0x62; 0x00].
Proof. vm_compute. reflexivity. Qed.

(* a validly encoded U+FFFD stays U+FFFD (3 bytes consumed) *)
Example utf16_ex_fffd : utf8_to_utf16le [0xef; 0xbf; 0xbd; 0x41]
  = [0xfd; 0xff; 0x41; 0x00].
Proof. vm_compute. reflexivity. Qed.

Print Assumptions utf8_to_utf16le_bytes.
Print Assumptions utf8_to_utf16le_ascii.
Print Assumptions utf8_to_utf16le_ascii_length.
