(* ------------------------------------------------------------------ *)
(*  MD5 (RFC 1321) as an executable, total Gallina function.           *)
(*                                                                    *)
(*  Conventions: a byte is an [N] with value < 256, a byte string is  *)
(*  a [list N].  32-bit words are [N] values < 2^32; all word          *)
(*  arithmetic is masked explicitly.  Input bytes are reduced modulo  *)
(*  256 ([N.land _ 255]) when they are packed into words, so [md5] is  *)
(*  total on arbitrary [list N] (out-of-range elements are read        *)
(*  modulo 256).                                                       *)
(*                                                                    *)
(*  Exported:                                                          *)
(*    md5        : list N -> list N                                    *)
(*    md5_length : forall m, length (md5 m) = 16%nat                   *)
(*    md5_bytes  : forall m, Forall (fun b => (b < 256)%N) (md5 m)     *)
(* ------------------------------------------------------------------ *)

From Coq Require Import NArith List Lia ZifyN ZifyNat.
Import ListNotations.
Local Open Scope N_scope.

(* ---------- 32-bit word helpers ---------- *)

Definition md5_mask32 : N := 0xffffffff.

Definition md5_add32 (a b : N) : N := N.land (a + b) md5_mask32.

Definition md5_not32 (a : N) : N := N.lxor (N.land a md5_mask32) md5_mask32.

(* rotate left by s, 0 < s < 32, on a word < 2^32 *)
Definition md5_rotl32 (x s : N) : N :=
  N.lor (N.land (N.shiftl x s) md5_mask32) (N.shiftr x (32 - s)).

(* ---------- byte <-> word serialisation (little endian) ---------- *)

Definition md5_byte0 (w : N) : N := N.land w 255.
Definition md5_byte1 (w : N) : N := N.land (N.shiftr w 8) 255.
Definition md5_byte2 (w : N) : N := N.land (N.shiftr w 16) 255.
Definition md5_byte3 (w : N) : N := N.land (N.shiftr w 24) 255.

Definition md5_word_le (a b c d : N) : N :=
  N.lor (N.land a 255)
    (N.lor (N.shiftl (N.land b 255) 8)
       (N.lor (N.shiftl (N.land c 255) 16) (N.shiftl (N.land d 255) 24))).

(* Packs groups of four bytes into little-endian words; a trailing
   group of fewer than four bytes is dropped (never happens on padded
   input, whose length is a multiple of 64). *)
Fixpoint md5_words_le (l : list N) : list N :=
  match l with
  | a :: b :: c :: d :: tl => md5_word_le a b c d :: md5_words_le tl
  | _ => []
  end.

(* ---------- padding ---------- *)

(* number of zero bytes after the 0x80 marker, for a message of n bytes *)
Definition md5_pad_zeros (n : N) : nat := N.to_nat ((119 - n mod 64) mod 64).

Definition md5_len_bytes_le (bits : N) : list N :=
  [ N.land bits 255;
    N.land (N.shiftr bits 8) 255;
    N.land (N.shiftr bits 16) 255;
    N.land (N.shiftr bits 24) 255;
    N.land (N.shiftr bits 32) 255;
    N.land (N.shiftr bits 40) 255;
    N.land (N.shiftr bits 48) 255;
    N.land (N.shiftr bits 56) 255 ].

Definition md5_pad (msg : list N) : list N :=
  let n := N.of_nat (length msg) in
  msg ++ 128 :: repeat 0 (md5_pad_zeros n) ++ md5_len_bytes_le (8 * n).

(* ---------- compression function ---------- *)

Definition md5_state : Type := (N * N * N * N)%type.

Definition md5_init_state : md5_state :=
  (0x67452301, 0xefcdab89, 0x98badcfe, 0x10325476).

Definition md5_fF (b c d : N) : N := N.lor (N.land b c) (N.land (md5_not32 b) d).
Definition md5_fG (b c d : N) : N := N.lor (N.land d b) (N.land (md5_not32 d) c).
Definition md5_fH (b c d : N) : N := N.lxor b (N.lxor c d).
Definition md5_fI (b c d : N) : N := N.lxor c (N.lor b (md5_not32 d)).

(* One MD5 md5_step: (constant K, rotation s, message word index g). *)
Definition md5_step (f : N -> N -> N -> N) (M : list N)
           (st : md5_state) (p : N * N * nat) : md5_state :=
  let '(a, b, c, d) := st in
  let '(k, s, g) := p in
  let x := md5_add32 (md5_add32 (md5_add32 a (f b c d)) k) (nth g M 0) in
  (d, md5_add32 b (md5_rotl32 x s), b, c).

Definition md5_steps1 : list (N * N * nat) :=
  [ (0xd76aa478,  7,  0%nat);
    (0xe8c7b756, 12,  1%nat);
    (0x242070db, 17,  2%nat);
    (0xc1bdceee, 22,  3%nat);
    (0xf57c0faf,  7,  4%nat);
    (0x4787c62a, 12,  5%nat);
    (0xa8304613, 17,  6%nat);
    (0xfd469501, 22,  7%nat);
    (0x698098d8,  7,  8%nat);
    (0x8b44f7af, 12,  9%nat);
    (0xffff5bb1, 17, 10%nat);
    (0x895cd7be, 22, 11%nat);
    (0x6b901122,  7, 12%nat);
    (0xfd987193, 12, 13%nat);
    (0xa679438e, 17, 14%nat);
    (0x49b40821, 22, 15%nat) ].

Definition md5_steps2 : list (N * N * nat) :=
  [ (0xf61e2562,  5,  1%nat);
    (0xc040b340,  9,  6%nat);
    (0x265e5a51, 14, 11%nat);
    (0xe9b6c7aa, 20,  0%nat);
    (0xd62f105d,  5,  5%nat);
    (0x02441453,  9, 10%nat);
    (0xd8a1e681, 14, 15%nat);
    (0xe7d3fbc8, 20,  4%nat);
    (0x21e1cde6,  5,  9%nat);
    (0xc33707d6,  9, 14%nat);
    (0xf4d50d87, 14,  3%nat);
    (0x455a14ed, 20,  8%nat);
    (0xa9e3e905,  5, 13%nat);
    (0xfcefa3f8,  9,  2%nat);
    (0x676f02d9, 14,  7%nat);
    (0x8d2a4c8a, 20, 12%nat) ].

Definition md5_steps3 : list (N * N * nat) :=
  [ (0xfffa3942,  4,  5%nat);
    (0x8771f681, 11,  8%nat);
    (0x6d9d6122, 16, 11%nat);
    (0xfde5380c, 23, 14%nat);
    (0xa4beea44,  4,  1%nat);
    (0x4bdecfa9, 11,  4%nat);
    (0xf6bb4b60, 16,  7%nat);
    (0xbebfbc70, 23, 10%nat);
    (0x289b7ec6,  4, 13%nat);
    (0xeaa127fa, 11,  0%nat);
    (0xd4ef3085, 16,  3%nat);
    (0x04881d05, 23,  6%nat);
    (0xd9d4d039,  4,  9%nat);
    (0xe6db99e5, 11, 12%nat);
    (0x1fa27cf8, 16, 15%nat);
    (0xc4ac5665, 23,  2%nat) ].

Definition md5_steps4 : list (N * N * nat) :=
  [ (0xf4292244,  6,  0%nat);
    (0x432aff97, 10,  7%nat);
    (0xab9423a7, 15, 14%nat);
    (0xfc93a039, 21,  5%nat);
    (0x655b59c3,  6, 12%nat);
    (0x8f0ccc92, 10,  3%nat);
    (0xffeff47d, 15, 10%nat);
    (0x85845dd1, 21,  1%nat);
    (0x6fa87e4f,  6,  8%nat);
    (0xfe2ce6e0, 10, 15%nat);
    (0xa3014314, 15,  6%nat);
    (0x4e0811a1, 21, 13%nat);
    (0xf7537e82,  6,  4%nat);
    (0xbd3af235, 10, 11%nat);
    (0x2ad7d2bb, 15,  2%nat);
    (0xeb86d391, 21,  9%nat) ].

Definition md5_compress (st : md5_state) (M : list N) : md5_state :=
  let st1 := fold_left (md5_step md5_fF M) md5_steps1 st in
  let st2 := fold_left (md5_step md5_fG M) md5_steps2 st1 in
  let st3 := fold_left (md5_step md5_fH M) md5_steps3 st2 in
  let st4 := fold_left (md5_step md5_fI M) md5_steps4 st3 in
  let '(a0, b0, c0, d0) := st in
  let '(a, b, c, d) := st4 in
  (md5_add32 a0 a, md5_add32 b0 b, md5_add32 c0 c, md5_add32 d0 d).

(* Processes 16 words per iteration; [fuel] only has to be at least the
   number of blocks ([md5] passes the number of words). *)
Fixpoint md5_process (fuel : nat) (st : md5_state) (ws : list N) : md5_state :=
  match fuel with
  | O => st
  | S fuel' =>
      match ws with
      | [] => st
      | _ :: _ => md5_process fuel' (md5_compress st (firstn 16 ws)) (skipn 16 ws)
      end
  end.

Definition md5_serialize (st : md5_state) : list N :=
  let '(a, b, c, d) := st in
  [ md5_byte0 a; md5_byte1 a; md5_byte2 a; md5_byte3 a;
    md5_byte0 b; md5_byte1 b; md5_byte2 b; md5_byte3 b;
    md5_byte0 c; md5_byte1 c; md5_byte2 c; md5_byte3 c;
    md5_byte0 d; md5_byte1 d; md5_byte2 d; md5_byte3 d ].

Definition md5 (msg : list N) : list N :=
  let ws := md5_words_le (md5_pad msg) in
  md5_serialize (md5_process (length ws) md5_init_state ws).

(* ---------- structural lemmas ---------- *)

Lemma md5_land_255_lt : forall x : N, N.land x 255 < 256.
Proof.
  intro x.
  change 255 with (N.ones 8).
  rewrite N.land_ones.
  apply N.mod_lt. discriminate.
Qed.

Lemma md5_serialize_length : forall st, length (md5_serialize st) = 16%nat.
Proof.
  intros [[[a b] c] d]. reflexivity.
Qed.

Lemma md5_serialize_bytes : forall st, Forall (fun b => b < 256) (md5_serialize st).
Proof.
  intros [[[a b] c] d].
  unfold md5_serialize, md5_byte0, md5_byte1, md5_byte2, md5_byte3.
  repeat (apply Forall_cons; [ apply md5_land_255_lt | ]).
  apply Forall_nil.
Qed.

Lemma md5_length : forall m, length (md5 m) = 16%nat.
Proof.
  intro m. unfold md5. apply md5_serialize_length.
Qed.

Lemma md5_bytes : forall m, Forall (fun b => (b < 256)%N) (md5 m).
Proof.
  intro m. unfold md5. apply md5_serialize_bytes.
Qed.

(* The padded message always has a length that is a multiple of 64
   bytes (so [md5_words_le] drops nothing and every block is complete). *)
Lemma md5_pad_length : forall m,
  (N.of_nat (length (md5_pad m)) mod 64 = 0)%N.
Proof.
  intro m. unfold md5_pad, md5_pad_zeros.
  rewrite app_length. cbn [length].
  rewrite app_length, repeat_length. cbn [length md5_len_bytes_le].
  lia.
Qed.

(* ---------- RFC 1321 appendix A.5 test suite ---------- *)

(* MD5 ("") = d41d8cd98f00b204e9800998ecf8427e *)
Example md5_rfc1321_1 :
  md5 []
  = [0xd4; 0x1d; 0x8c; 0xd9; 0x8f; 0x00; 0xb2; 0x04; 0xe9; 0x80; 0x09; 0x98; 0xec; 0xf8; 0x42; 0x7e].
Proof. vm_compute. reflexivity. Qed.

(* MD5 ("a") = 0cc175b9c0f1b6a831c399e269772661 *)
Example md5_rfc1321_2 :
  md5 [0x61]
  = [0x0c; 0xc1; 0x75; 0xb9; 0xc0; 0xf1; 0xb6; 0xa8; 0x31; 0xc3; 0x99; 0xe2; 0x69; 0x77; 0x26; 0x61].
Proof. vm_compute. reflexivity. Qed.

(* MD5 ("abc") = 900150983cd24fb0d6963f7d28e17f72 *)
Example md5_rfc1321_3 :
  md5 [0x61; 0x62; 0x63]
  = [0x90; 0x01; 0x50; 0x98; 0x3c; 0xd2; 0x4f; 0xb0; 0xd6; 0x96; 0x3f; 0x7d; 0x28; 0xe1; 0x7f; 0x72].
Proof. vm_compute. reflexivity. Qed.

(* MD5 ("message digest") = f96b697d7cb7938d525a2f31aaf161d0 *)
Example md5_rfc1321_4 :
  md5 [0x6d; 0x65; 0x73; 0x73; 0x61; 0x67; 0x65; 0x20; 0x64; 0x69; 0x67; 0x65; 0x73; 0x74]
  = [0xf9; 0x6b; 0x69; 0x7d; 0x7c; 0xb7; 0x93; 0x8d; 0x52; 0x5a; 0x2f; 0x31; 0xaa; 0xf1; 0x61; 0xd0].
Proof. vm_compute. reflexivity. Qed.

(* MD5 ("abcdefghijklmnopqrstuvwxyz") = c3fcd3d76192e4007dfb496cca67e13b *)
Example md5_rfc1321_5 :
  md5 [0x61; 0x62; 0x63; 0x64; 0x65; 0x66; 0x67; 0x68; 0x69; 0x6a; 0x6b; 0x6c; 0x6d; 0x6e; 0x6f; 0x70; 0x71; 0x72; 0x73; 0x74; 0x75; 0x76; 0x77; 0x78; 0x79; 0x7a]
  = [0xc3; 0xfc; 0xd3; 0xd7; 0x61; 0x92; 0xe4; 0x00; 0x7d; 0xfb; 0x49; 0x6c; 0xca; 0x67; 0xe1; 0x3b].
Proof. vm_compute. reflexivity. Qed.

(* MD5 ("ABCDEFGHIJKLMNOPQRSTUVWXYZabcdefghijklmnopqrstuvwxyz0123456789") = d174ab98d277d9f5a5611c2c9f419d9f *)
Example md5_rfc1321_6 :
  md5 [0x41; 0x42; 0x43; 0x44; 0x45; 0x46; 0x47; 0x48; 0x49; 0x4a; 0x4b; 0x4c; 0x4d; 0x4e; 0x4f; 0x50; 0x51; 0x52; 0x53; 0x54; 0x55; 0x56; 0x57; 0x58; 0x59; 0x5a; 0x61; 0x62; 0x63; 0x64; 0x65; 0x66; 0x67; 0x68; 0x69; 0x6a; 0x6b; 0x6c; 0x6d; 0x6e; 0x6f; 0x70; 0x71; 0x72; 0x73; 0x74; 0x75; 0x76; 0x77; 0x78; 0x79; 0x7a; 0x30; 0x31; 0x32; 0x33; 0x34; 0x35; 0x36; 0x37; 0x38; 0x39]
  = [0xd1; 0x74; 0xab; 0x98; 0xd2; 0x77; 0xd9; 0xf5; 0xa5; 0x61; 0x1c; 0x2c; 0x9f; 0x41; 0x9d; 0x9f].
Proof. vm_compute. reflexivity. Qed.

(* MD5 ("12345678901234567890123456789012345678901234567890123456789012345678901234567890") = 57edf4a22be3c955ac49da2e2107b67a *)
Example md5_rfc1321_7 :
  md5 [0x31; 0x32; 0x33; 0x34; 0x35; 0x36; 0x37; 0x38; 0x39; 0x30; 0x31; 0x32; 0x33; 0x34; 0x35; 0x36; 0x37; 0x38; 0x39; 0x30; 0x31; 0x32; 0x33; 0x34; 0x35; 0x36; 0x37; 0x38; 0x39; 0x30; 0x31; 0x32; 0x33; 0x34; 0x35; 0x36; 0x37; 0x38; 0x39; 0x30; 0x31; 0x32; 0x33; 0x34; 0x35; 0x36; 0x37; 0x38; 0x39; 0x30; 0x31; 0x32; 0x33; 0x34; 0x35; 0x36; 0x37; 0x38; 0x39; 0x30; 0x31; 0x32; 0x33; 0x34; 0x35; 0x36; 0x37; 0x38; 0x39; 0x30; 0x31; 0x32; 0x33; 0x34; 0x35; 0x36; 0x37; 0x38; 0x39; 0x30]
  = [0x57; 0xed; 0xf4; 0xa2; 0x2b; 0xe3; 0xc9; 0x55; 0xac; 0x49; 0xda; 0x2e; 0x21; 0x07; 0xb6; 0x7a].
Proof. vm_compute. reflexivity. Qed.

Print Assumptions md5_length.
Print Assumptions md5_bytes.
Print Assumptions md5_pad_length.
