(* ------------------------------------------------------------------ *)
(*  MD4 (RFC 1320) as an executable, total Gallina function.           *)
(*                                                                    *)
(*  Conventions: a byte is an [N] with value < 256, a byte string is  *)
(*  a [list N].  32-bit words are [N] values < 2^32; all word          *)
(*  arithmetic is masked explicitly.  Input bytes are reduced modulo  *)
(*  256 ([N.land _ 255]) when they are packed into words, so [md4] is  *)
(*  total on arbitrary [list N] (out-of-range elements are read        *)
(*  modulo 256).                                                       *)
(*                                                                    *)
(*  Exported:                                                          *)
(*    md4        : list N -> list N                                    *)
(*    md4_length : forall m, length (md4 m) = 16%nat                   *)
(*    md4_bytes  : forall m, Forall (fun b => (b < 256)%N) (md4 m)     *)
(* ------------------------------------------------------------------ *)

From Coq Require Import NArith List Lia ZifyN ZifyNat.
Import ListNotations.
Local Open Scope N_scope.

(* ---------- 32-bit word helpers ---------- *)

Definition md4_mask32 : N := 0xffffffff.

Definition md4_add32 (a b : N) : N := N.land (a + b) md4_mask32.

Definition md4_not32 (a : N) : N := N.lxor (N.land a md4_mask32) md4_mask32.

(* rotate left by s, 0 < s < 32, on a word < 2^32 *)
Definition md4_rotl32 (x s : N) : N :=
  N.lor (N.land (N.shiftl x s) md4_mask32) (N.shiftr x (32 - s)).

(* ---------- byte <-> word serialisation (little endian) ---------- *)

Definition md4_byte0 (w : N) : N := N.land w 255.
Definition md4_byte1 (w : N) : N := N.land (N.shiftr w 8) 255.
Definition md4_byte2 (w : N) : N := N.land (N.shiftr w 16) 255.
Definition md4_byte3 (w : N) : N := N.land (N.shiftr w 24) 255.

Definition md4_word_le (a b c d : N) : N :=
  N.lor (N.land a 255)
    (N.lor (N.shiftl (N.land b 255) 8)
       (N.lor (N.shiftl (N.land c 255) 16) (N.shiftl (N.land d 255) 24))).

(* Packs groups of four bytes into little-endian words; a trailing
   group of fewer than four bytes is dropped (never happens on padded
   input, whose length is a multiple of 64). *)
Fixpoint md4_words_le (l : list N) : list N :=
  match l with
  | a :: b :: c :: d :: tl => md4_word_le a b c d :: md4_words_le tl
  | _ => []
  end.

(* ---------- padding ---------- *)

(* number of zero bytes after the 0x80 marker, for a message of n bytes *)
Definition md4_pad_zeros (n : N) : nat := N.to_nat ((119 - n mod 64) mod 64).

Definition md4_len_bytes_le (bits : N) : list N :=
  [ N.land bits 255;
    N.land (N.shiftr bits 8) 255;
    N.land (N.shiftr bits 16) 255;
    N.land (N.shiftr bits 24) 255;
    N.land (N.shiftr bits 32) 255;
    N.land (N.shiftr bits 40) 255;
    N.land (N.shiftr bits 48) 255;
    N.land (N.shiftr bits 56) 255 ].

Definition md4_pad (msg : list N) : list N :=
  let n := N.of_nat (length msg) in
  msg ++ 128 :: repeat 0 (md4_pad_zeros n) ++ md4_len_bytes_le (8 * n).

(* ---------- compression function ---------- *)

Definition md4_state : Type := (N * N * N * N)%type.

Definition md4_init_state : md4_state :=
  (0x67452301, 0xefcdab89, 0x98badcfe, 0x10325476).

Definition md4_fF (b c d : N) : N := N.lor (N.land b c) (N.land (md4_not32 b) d).
Definition md4_fG (b c d : N) : N :=
  N.lor (N.land b c) (N.lor (N.land b d) (N.land c d)).
Definition md4_fH (b c d : N) : N := N.lxor b (N.lxor c d).

(* One MD4 step [a = (a + f(b,c,d) + X[k] + const) <<< s], followed by
   the register rotation (a,b,c,d) -> (d,a,b,c) so that the same step
   function can be folded over the whole round. *)
Definition md4_step (f : N -> N -> N -> N) (const : N) (M : list N)
           (st : md4_state) (p : nat * N) : md4_state :=
  let '(a, b, c, d) := st in
  let '(k, s) := p in
  let x := md4_add32 (md4_add32 (md4_add32 a (f b c d)) (nth k M 0)) const in
  (d, md4_rotl32 x s, b, c).

(* (message word index, rotation) *)
Definition md4_steps1 : list (nat * N) :=
  [ (0%nat, 3); (1%nat, 7); (2%nat, 11); (3%nat, 19);
    (4%nat, 3); (5%nat, 7); (6%nat, 11); (7%nat, 19);
    (8%nat, 3); (9%nat, 7); (10%nat, 11); (11%nat, 19);
    (12%nat, 3); (13%nat, 7); (14%nat, 11); (15%nat, 19) ].

Definition md4_steps2 : list (nat * N) :=
  [ (0%nat, 3); (4%nat, 5); (8%nat, 9); (12%nat, 13);
    (1%nat, 3); (5%nat, 5); (9%nat, 9); (13%nat, 13);
    (2%nat, 3); (6%nat, 5); (10%nat, 9); (14%nat, 13);
    (3%nat, 3); (7%nat, 5); (11%nat, 9); (15%nat, 13) ].

Definition md4_steps3 : list (nat * N) :=
  [ (0%nat, 3); (8%nat, 9); (4%nat, 11); (12%nat, 15);
    (2%nat, 3); (10%nat, 9); (6%nat, 11); (14%nat, 15);
    (1%nat, 3); (9%nat, 9); (5%nat, 11); (13%nat, 15);
    (3%nat, 3); (11%nat, 9); (7%nat, 11); (15%nat, 15) ].

Definition md4_compress (st : md4_state) (M : list N) : md4_state :=
  let st1 := fold_left (md4_step md4_fF 0 M) md4_steps1 st in
  let st2 := fold_left (md4_step md4_fG 0x5a827999 M) md4_steps2 st1 in
  let st3 := fold_left (md4_step md4_fH 0x6ed9eba1 M) md4_steps3 st2 in
  let '(a0, b0, c0, d0) := st in
  let '(a, b, c, d) := st3 in
  (md4_add32 a0 a, md4_add32 b0 b, md4_add32 c0 c, md4_add32 d0 d).

(* Processes 16 words per iteration; [fuel] only has to be at least the
   number of blocks ([md4] passes the number of words). *)
Fixpoint md4_process (fuel : nat) (st : md4_state) (ws : list N) : md4_state :=
  match fuel with
  | O => st
  | S fuel' =>
      match ws with
      | [] => st
      | _ :: _ => md4_process fuel' (md4_compress st (firstn 16 ws)) (skipn 16 ws)
      end
  end.

Definition md4_serialize (st : md4_state) : list N :=
  let '(a, b, c, d) := st in
  [ md4_byte0 a; md4_byte1 a; md4_byte2 a; md4_byte3 a;
    md4_byte0 b; md4_byte1 b; md4_byte2 b; md4_byte3 b;
    md4_byte0 c; md4_byte1 c; md4_byte2 c; md4_byte3 c;
    md4_byte0 d; md4_byte1 d; md4_byte2 d; md4_byte3 d ].

Definition md4 (msg : list N) : list N :=
  let ws := md4_words_le (md4_pad msg) in
  md4_serialize (md4_process (length ws) md4_init_state ws).

(* ---------- structural lemmas ---------- *)

Lemma md4_land_255_lt : forall x : N, N.land x 255 < 256.
Proof.
  intro x.
  change 255 with (N.ones 8).
  rewrite N.land_ones.
  apply N.mod_lt. discriminate.
Qed.

Lemma md4_serialize_length : forall st, length (md4_serialize st) = 16%nat.
Proof.
  intros [[[a b] c] d]. reflexivity.
Qed.

Lemma md4_serialize_bytes : forall st, Forall (fun b => b < 256) (md4_serialize st).
Proof.
  intros [[[a b] c] d].
  unfold md4_serialize, md4_byte0, md4_byte1, md4_byte2, md4_byte3.
  repeat (apply Forall_cons; [ apply md4_land_255_lt | ]).
  apply Forall_nil.
Qed.

Lemma md4_length : forall m, length (md4 m) = 16%nat.
Proof.
  intro m. unfold md4. apply md4_serialize_length.
Qed.

Lemma md4_bytes : forall m, Forall (fun b => (b < 256)%N) (md4 m).
Proof.
  intro m. unfold md4. apply md4_serialize_bytes.
Qed.

(* The padded message always has a length that is a multiple of 64
   bytes (so [md4_words_le] drops nothing and every block is complete). *)
Lemma md4_pad_length : forall m,
  (N.of_nat (length (md4_pad m)) mod 64 = 0)%N.
Proof.
  intro m. unfold md4_pad, md4_pad_zeros.
  rewrite app_length. cbn [length].
  rewrite app_length, repeat_length. cbn [length md4_len_bytes_le].
  lia.
Qed.

(* ---------- RFC 1320 appendix A.5 test suite ---------- *)

(* MD4 ("") = 31d6cfe0d16ae931b73c59d7e0c089c0 *)
Example md4_rfc1320_1 :
  md4 []
  = [0x31; 0xd6; 0xcf; 0xe0; 0xd1; 0x6a; 0xe9; 0x31; 0xb7; 0x3c; 0x59; 0xd7; 0xe0; 0xc0; 0x89; 0xc0].
Proof. vm_compute. reflexivity. Qed.

(* MD4 ("a") = bde52cb31de33e46245e05fbdbd6fb24 *)
Example md4_rfc1320_2 :
  md4 [0x61]
  = [0xbd; 0xe5; 0x2c; 0xb3; 0x1d; 0xe3; 0x3e; 0x46; 0x24; 0x5e; 0x05; 0xfb; 0xdb; 0xd6; 0xfb; 0x24].
Proof. vm_compute. reflexivity. Qed.

(* MD4 ("abc") = a448017aaf21d8525fc10ae87aa6729d *)
Example md4_rfc1320_3 :
  md4 [0x61; 0x62; 0x63]
  = [0xa4; 0x48; 0x01; 0x7a; 0xaf; 0x21; 0xd8; 0x52; 0x5f; 0xc1; 0x0a; 0xe8; 0x7a; 0xa6; 0x72; 0x9d].
Proof. vm_compute. reflexivity. Qed.

(* MD4 ("message digest") = d9130a8164549fe818874806e1c7014b *)
Example md4_rfc1320_4 :
  md4 [0x6d; 0x65; 0x73; 0x73; 0x61; 0x67; 0x65; 0x20; 0x64; 0x69; 0x67; 0x65; 0x73; 0x74]
  = [0xd9; 0x13; 0x0a; 0x81; 0x64; 0x54; 0x9f; 0xe8; 0x18; 0x87; 0x48; 0x06; 0xe1; 0xc7; 0x01; 0x4b].
Proof. vm_compute. reflexivity. Qed.

(* MD4 ("abcdefghijklmnopqrstuvwxyz") = d79e1c308aa5bbcdeea8ed63df412da9 *)
Example md4_rfc1320_5 :
  md4 [0x61; 0x62; 0x63; 0x64; 0x65; 0x66; 0x67; 0x68; 0x69; 0x6a; 0x6b; 0x6c; 0x6d; 0x6e; 0x6f; 0x70; 0x71; 0x72; 0x73; 0x74; 0x75; 0x76; 0x77; 0x78; 0x79; 0x7a]
  = [0xd7; 0x9e; 0x1c; 0x30; 0x8a; 0xa5; 0xbb; 0xcd; 0xee; 0xa8; 0xed; 0x63; 0xdf; 0x41; 0x2d; 0xa9].
Proof. vm_compute. reflexivity. Qed.

(* MD4 ("ABCDEFGHIJKLMNOPQRSTUVWXYZabcdefghijklmnopqrstuvwxyz0123456789") = 043f8582f241db351ce627e153e7f0e4 *)
Example md4_rfc1320_6 :
  md4 [0x41; 0x42; 0x43; 0x44; 0x45; 0x46; 0x47; 0x48; 0x49; 0x4a; 0x4b; 0x4c; 0x4d; 0x4e; 0x4f; 0x50; 0x51; 0x52; 0x53; 0x54; 0x55; 0x56; 0x57; 0x58; 0x59; 0x5a; 0x61; 0x62; 0x63; 0x64; 0x65; 0x66; 0x67; 0x68; 0x69; 0x6a; 0x6b; 0x6c; 0x6d; 0x6e; 0x6f; 0x70; 0x71; 0x72; 0x73; 0x74; 0x75; 0x76; 0x77; 0x78; 0x79; 0x7a; 0x30; 0x31; 0x32; 0x33; 0x34; 0x35; 0x36; 0x37; 0x38; 0x39]
  = [0x04; 0x3f; 0x85; 0x82; 0xf2; 0x41; 0xdb; 0x35; 0x1c; 0xe6; 0x27; 0xe1; 0x53; 0xe7; 0xf0; 0xe4].
Proof. vm_compute. reflexivity. Qed.

(* MD4 ("12345678901234567890123456789012345678901234567890123456789012345678901234567890") = e33b4ddc9c38f2199c3e7b164fcc0536 *)
Example md4_rfc1320_7 :
  md4 [0x31; 0x32; 0x33; 0x34; 0x35; 0x36; 0x37; 0x38; 0x39; 0x30; 0x31; 0x32; 0x33; 0x34; 0x35; 0x36; 0x37; 0x38; 0x39; 0x30; 0x31; 0x32; 0x33; 0x34; 0x35; 0x36; 0x37; 0x38; 0x39; 0x30; 0x31; 0x32; 0x33; 0x34; 0x35; 0x36; 0x37; 0x38; 0x39; 0x30; 0x31; 0x32; 0x33; 0x34; 0x35; 0x36; 0x37; 0x38; 0x39; 0x30; 0x31; 0x32; 0x33; 0x34; 0x35; 0x36; 0x37; 0x38; 0x39; 0x30; 0x31; 0x32; 0x33; 0x34; 0x35; 0x36; 0x37; 0x38; 0x39; 0x30; 0x31; 0x32; 0x33; 0x34; 0x35; 0x36; 0x37; 0x38; 0x39; 0x30]
  = [0xe3; 0x3b; 0x4d; 0xdc; 0x9c; 0x38; 0xf2; 0x19; 0x9c; 0x3e; 0x7b; 0x16; 0x4f; 0xcc; 0x05; 0x36].
Proof. vm_compute. reflexivity. Qed.

Print Assumptions md4_length.
Print Assumptions md4_bytes.
Print Assumptions md4_pad_length.
