(* ------------------------------------------------------------------ *)
(*  Single-block DES encryption (FIPS 46-3) as an executable, total    *)
(*  Gallina function.                                                  *)
(*                                                                    *)
(*  Conventions: a byte is an [N] with value < 256, a byte string is  *)
(*  a [list N].  Blocks are handled internally as [list bool], most    *)
(*  significant bit first, exactly following the bit numbering 1..64   *)
(*  of FIPS 46-3; the permutation tables below are the tables of the   *)
(*  standard, verbatim (1-based positions).                            *)
(*                                                                    *)
(*  [des_encrypt key block]                                            *)
(*    - requires an 8-byte key (the parity bits, i.e. the least        *)
(*      significant bit of every key byte, are ignored, as usual) and  *)
(*      an 8-byte block, and returns the 8-byte ciphertext;            *)
(*    - returns [] if [key] or [block] does not have length 8          *)
(*      (NB: Go's crypto/des panics on a bad key length and on a       *)
(*      short block, and silently uses the first 8 bytes of a longer   *)
(*      block; none of this is modelled, [] is returned instead);      *)
(*    - only bits 0..7 of every input element are read, so the         *)
(*      function is total on arbitrary [list N].                       *)
(*                                                                    *)
(*  Exported:                                                          *)
(*    des_encrypt : list N -> list N -> list N                         *)
(*    des_length  : forall key block, length key = 8%nat ->            *)
(*                  length block = 8%nat ->                            *)
(*                  length (des_encrypt key block) = 8%nat             *)
(*    des_bytes   : forall key block,                                  *)
(*                  Forall (fun b => (b < 256)%N) (des_encrypt key block) *)
(*  Extras (mirroring layeh.com/radius/rfc2759):                       *)
(*    des_expand_key7 : list N -> list N   (parityPadDESKey)           *)
(*    des_crypt       : list N -> list N -> list N   (DESCrypt)        *)
(* ------------------------------------------------------------------ *)

From Coq Require Import NArith Bool List Lia ZifyN ZifyNat.
Import ListNotations.
Local Open Scope N_scope.

(* ---------- bit-level helpers ---------- *)

(* the 8 low bits of b, most significant first *)
Definition des_byte_bits (b : N) : list bool :=
  [ N.testbit b 7; N.testbit b 6; N.testbit b 5; N.testbit b 4;
    N.testbit b 3; N.testbit b 2; N.testbit b 1; N.testbit b 0 ].

Definition des_bits_of_bytes (l : list N) : list bool :=
  flat_map des_byte_bits l.

(* big-endian value of a bit string *)
Definition des_bits_to_N (l : list bool) : N :=
  fold_left (fun acc (b : bool) => N.double acc + (if b then 1 else 0)) l 0.

(* byte number k (0-based) of a bit string *)
Definition des_byte_at (bits : list bool) (k : nat) : N :=
  N.land (des_bits_to_N (firstn 8 (skipn (8 * k) bits))) 255.

(* tables hold 1-based positions, as in the standard *)
Definition des_permute (tbl : list nat) (bits : list bool) : list bool :=
  map (fun i => nth (pred i) bits false) tbl.

Fixpoint des_xor (a b : list bool) : list bool :=
  match a, b with
  | x :: a', y :: b' => xorb x y :: des_xor a' b'
  | _, _ => []
  end.

Definition des_rotl (n : nat) (l : list bool) : list bool :=
  skipn n l ++ firstn n l.

(* ---------- tables (FIPS 46-3) ---------- *)

Definition des_IP : list nat :=
  [ 58; 50; 42; 34; 26; 18; 10; 2;
    60; 52; 44; 36; 28; 20; 12; 4;
    62; 54; 46; 38; 30; 22; 14; 6;
    64; 56; 48; 40; 32; 24; 16; 8;
    57; 49; 41; 33; 25; 17;  9; 1;
    59; 51; 43; 35; 27; 19; 11; 3;
    61; 53; 45; 37; 29; 21; 13; 5;
    63; 55; 47; 39; 31; 23; 15; 7 ]%nat.

Definition des_FP : list nat :=
  [ 40; 8; 48; 16; 56; 24; 64; 32;
    39; 7; 47; 15; 55; 23; 63; 31;
    38; 6; 46; 14; 54; 22; 62; 30;
    37; 5; 45; 13; 53; 21; 61; 29;
    36; 4; 44; 12; 52; 20; 60; 28;
    35; 3; 43; 11; 51; 19; 59; 27;
    34; 2; 42; 10; 50; 18; 58; 26;
    33; 1; 41;  9; 49; 17; 57; 25 ]%nat.

Definition des_E : list nat :=
  [ 32;  1;  2;  3;  4;  5;
     4;  5;  6;  7;  8;  9;
     8;  9; 10; 11; 12; 13;
    12; 13; 14; 15; 16; 17;
    16; 17; 18; 19; 20; 21;
    20; 21; 22; 23; 24; 25;
    24; 25; 26; 27; 28; 29;
    28; 29; 30; 31; 32;  1 ]%nat.

Definition des_P : list nat :=
  [ 16;  7; 20; 21; 29; 12; 28; 17;
     1; 15; 23; 26;  5; 18; 31; 10;
     2;  8; 24; 14; 32; 27;  3;  9;
    19; 13; 30;  6; 22; 11;  4; 25 ]%nat.

Definition des_PC1 : list nat :=
  [ 57; 49; 41; 33; 25; 17;  9;
     1; 58; 50; 42; 34; 26; 18;
    10;  2; 59; 51; 43; 35; 27;
    19; 11;  3; 60; 52; 44; 36;
    63; 55; 47; 39; 31; 23; 15;
     7; 62; 54; 46; 38; 30; 22;
    14;  6; 61; 53; 45; 37; 29;
    21; 13;  5; 28; 20; 12;  4 ]%nat.

Definition des_PC2 : list nat :=
  [ 14; 17; 11; 24;  1;  5;
     3; 28; 15;  6; 21; 10;
    23; 19; 12;  4; 26;  8;
    16;  7; 27; 20; 13;  2;
    41; 52; 31; 37; 47; 55;
    30; 40; 51; 45; 33; 48;
    44; 49; 39; 56; 34; 53;
    46; 42; 50; 36; 29; 32 ]%nat.

Definition des_shifts : list nat :=
  [ 1; 1; 2; 2; 2; 2; 2; 2; 1; 2; 2; 2; 2; 2; 2; 1 ]%nat.

(* S-boxes, row-major: entry (row, col) is at index 16*row + col *)
Definition des_S1 : list N :=
  [ 14;  4; 13;  1;  2; 15; 11;  8;  3; 10;  6; 12;  5;  9;  0;  7;
     0; 15;  7;  4; 14;  2; 13;  1; 10;  6; 12; 11;  9;  5;  3;  8;
     4;  1; 14;  8; 13;  6;  2; 11; 15; 12;  9;  7;  3; 10;  5;  0;
    15; 12;  8;  2;  4;  9;  1;  7;  5; 11;  3; 14; 10;  0;  6; 13 ].

Definition des_S2 : list N :=
  [ 15;  1;  8; 14;  6; 11;  3;  4;  9;  7;  2; 13; 12;  0;  5; 10;
     3; 13;  4;  7; 15;  2;  8; 14; 12;  0;  1; 10;  6;  9; 11;  5;
     0; 14;  7; 11; 10;  4; 13;  1;  5;  8; 12;  6;  9;  3;  2; 15;
    13;  8; 10;  1;  3; 15;  4;  2; 11;  6;  7; 12;  0;  5; 14;  9 ].

Definition des_S3 : list N :=
  [ 10;  0;  9; 14;  6;  3; 15;  5;  1; 13; 12;  7; 11;  4;  2;  8;
    13;  7;  0;  9;  3;  4;  6; 10;  2;  8;  5; 14; 12; 11; 15;  1;
    13;  6;  4;  9;  8; 15;  3;  0; 11;  1;  2; 12;  5; 10; 14;  7;
     1; 10; 13;  0;  6;  9;  8;  7;  4; 15; 14;  3; 11;  5;  2; 12 ].

Definition des_S4 : list N :=
  [  7; 13; 14;  3;  0;  6;  9; 10;  1;  2;  8;  5; 11; 12;  4; 15;
    13;  8; 11;  5;  6; 15;  0;  3;  4;  7;  2; 12;  1; 10; 14;  9;
    10;  6;  9;  0; 12; 11;  7; 13; 15;  1;  3; 14;  5;  2;  8;  4;
     3; 15;  0;  6; 10;  1; 13;  8;  9;  4;  5; 11; 12;  7;  2; 14 ].

Definition des_S5 : list N :=
  [  2; 12;  4;  1;  7; 10; 11;  6;  8;  5;  3; 15; 13;  0; 14;  9;
    14; 11;  2; 12;  4;  7; 13;  1;  5;  0; 15; 10;  3;  9;  8;  6;
     4;  2;  1; 11; 10; 13;  7;  8; 15;  9; 12;  5;  6;  3;  0; 14;
    11;  8; 12;  7;  1; 14;  2; 13;  6; 15;  0;  9; 10;  4;  5;  3 ].

Definition des_S6 : list N :=
  [ 12;  1; 10; 15;  9;  2;  6;  8;  0; 13;  3;  4; 14;  7;  5; 11;
    10; 15;  4;  2;  7; 12;  9;  5;  6;  1; 13; 14;  0; 11;  3;  8;
     9; 14; 15;  5;  2;  8; 12;  3;  7;  0;  4; 10;  1; 13; 11;  6;
     4;  3;  2; 12;  9;  5; 15; 10; 11; 14;  1;  7;  6;  0;  8; 13 ].

Definition des_S7 : list N :=
  [  4; 11;  2; 14; 15;  0;  8; 13;  3; 12;  9;  7;  5; 10;  6;  1;
    13;  0; 11;  7;  4;  9;  1; 10; 14;  3;  5; 12;  2; 15;  8;  6;
     1;  4; 11; 13; 12;  3;  7; 14; 10; 15;  6;  8;  0;  5;  9;  2;
     6; 11; 13;  8;  1;  4; 10;  7;  9;  5;  0; 15; 14;  2;  3; 12 ].

Definition des_S8 : list N :=
  [ 13;  2;  8;  4;  6; 15; 11;  1; 10;  9;  3; 14;  5;  0; 12;  7;
     1; 15; 13;  8; 10;  3;  7;  4; 12;  5;  6; 11;  0; 14;  9;  2;
     7; 11;  4;  1;  9; 12; 14;  2;  0;  6; 10; 13; 15;  3;  5;  8;
     2;  1; 14;  7;  4; 10;  8; 13; 15; 12;  9;  0;  3;  5;  6; 11 ].

Definition des_SBOXES : list (list N) :=
  [ des_S1; des_S2; des_S3; des_S4; des_S5; des_S6; des_S7; des_S8 ].

(* ---------- the cipher ---------- *)

Definition des_nibble_bits (v : N) : list bool :=
  [ N.testbit v 3; N.testbit v 2; N.testbit v 1; N.testbit v 0 ].

Definition des_b2n (b : bool) (w : nat) : nat := if b then w else O.

(* Applies S1..S8 to successive 6-bit groups: bits 1 and 6 select the
   row, bits 2..5 the column. *)
Fixpoint des_sboxes (boxes : list (list N)) (bits : list bool) : list bool :=
  match boxes with
  | [] => []
  | box :: boxes' =>
      match bits with
      | b1 :: b2 :: b3 :: b4 :: b5 :: b6 :: tl =>
          let idx :=
            (des_b2n b1 32 + des_b2n b6 16 + des_b2n b2 8 +
             des_b2n b3 4 + des_b2n b4 2 + des_b2n b5 1)%nat in
          des_nibble_bits (nth idx box 0) ++ des_sboxes boxes' tl
      | _ => []
      end
  end.

(* the cipher function f(R, K) *)
Definition des_f (r k : list bool) : list bool :=
  des_permute des_P (des_sboxes des_SBOXES (des_xor (des_permute des_E r) k)).

(* key schedule: K1 .. K16 *)
Fixpoint des_subkeys_from (shifts : list nat) (c d : list bool)
  : list (list bool) :=
  match shifts with
  | [] => []
  | s :: shifts' =>
      let c' := des_rotl s c in
      let d' := des_rotl s d in
      des_permute des_PC2 (c' ++ d') :: des_subkeys_from shifts' c' d'
  end.

Definition des_subkeys (keybits : list bool) : list (list bool) :=
  let cd := des_permute des_PC1 keybits in
  des_subkeys_from des_shifts (firstn 28 cd) (skipn 28 cd).

Fixpoint des_rounds (keys : list (list bool)) (l r : list bool)
  : list bool * list bool :=
  match keys with
  | [] => (l, r)
  | k :: keys' => des_rounds keys' r (des_xor l (des_f r k))
  end.

(* encryption of a 64-bit block under a given subkey list *)
Definition des_block_bits (keys : list (list bool)) (blockbits : list bool)
  : list bool :=
  let ip := des_permute des_IP blockbits in
  let '(l16, r16) := des_rounds keys (firstn 32 ip) (skipn 32 ip) in
  des_permute des_FP (r16 ++ l16).

Definition des_serialize (bits : list bool) : list N :=
  [ des_byte_at bits 0; des_byte_at bits 1; des_byte_at bits 2;
    des_byte_at bits 3; des_byte_at bits 4; des_byte_at bits 5;
    des_byte_at bits 6; des_byte_at bits 7 ].

Definition des_encrypt (key block : list N) : list N :=
  if (Nat.eqb (length key) 8 && Nat.eqb (length block) 8)%bool
  then des_serialize
         (des_block_bits (des_subkeys (des_bits_of_bytes key))
                         (des_bits_of_bytes block))
  else [].

(* ---------- rfc2759 helpers ---------- *)

(* One output byte per group of 7 bits: the 7 bits in the high
   positions and an odd-parity bit in the least significant position. *)
Fixpoint des_parity_groups (n : nat) (bits : list bool) : list N :=
  match n with
  | O => []
  | S n' =>
      let g := firstn 7 bits in
      let par := negb (fold_left xorb g false) in
      N.land (des_bits_to_N (g ++ [par])) 255
        :: des_parity_groups n' (skipn 7 bits)
  end.

(* rfc2759.parityPadDESKey: expands a 7-byte key to an 8-byte DES key
   with odd parity.  Returns [] if the input is not 7 bytes long. *)
Definition des_expand_key7 (key7 : list N) : list N :=
  if Nat.eqb (length key7) 7
  then des_parity_groups 8 (des_bits_of_bytes key7)
  else [].

(* rfc2759.DESCrypt: 7-byte keys are parity-expanded, 8-byte keys used
   as they are.  Returns [] where the Go code panics (key length not 7
   or 8, block shorter than 8) and also when the block is longer than
   8 bytes (Go would encrypt its first 8 bytes). *)
Definition des_crypt (key clear : list N) : list N :=
  if Nat.eqb (length key) 7
  then des_encrypt (des_expand_key7 key) clear
  else des_encrypt key clear.

(* ---------- structural lemmas ---------- *)

Lemma des_land_255_lt : forall x : N, N.land x 255 < 256.
Proof.
  intro x.
  change 255 with (N.ones 8).
  rewrite N.land_ones.
  apply N.mod_lt. discriminate.
Qed.

Lemma des_serialize_length : forall bits, length (des_serialize bits) = 8%nat.
Proof.
  intro bits. reflexivity.
Qed.

Lemma des_serialize_bytes :
  forall bits, Forall (fun b => b < 256) (des_serialize bits).
Proof.
  intro bits. unfold des_serialize, des_byte_at.
  repeat (apply Forall_cons; [ apply des_land_255_lt | ]).
  apply Forall_nil.
Qed.

Lemma des_length : forall key block,
  length key = 8%nat -> length block = 8%nat ->
  length (des_encrypt key block) = 8%nat.
Proof.
  intros key block Hkey Hblock.
  unfold des_encrypt. rewrite Hkey, Hblock.
  change (Nat.eqb 8 8) with true. cbn [andb].
  apply des_serialize_length.
Qed.

Lemma des_bytes : forall key block,
  Forall (fun b => (b < 256)%N) (des_encrypt key block).
Proof.
  intros key block. unfold des_encrypt.
  destruct (Nat.eqb (length key) 8 && Nat.eqb (length block) 8)%bool.
  - apply des_serialize_bytes.
  - apply Forall_nil.
Qed.

Lemma des_parity_groups_length : forall n bits,
  length (des_parity_groups n bits) = n.
Proof.
  induction n as [| n IHn]; intro bits.
  - reflexivity.
  - cbn [des_parity_groups length]. rewrite IHn. reflexivity.
Qed.

Lemma des_parity_groups_bytes : forall n bits,
  Forall (fun b => b < 256) (des_parity_groups n bits).
Proof.
  induction n as [| n IHn]; intro bits.
  - apply Forall_nil.
  - cbn [des_parity_groups]. apply Forall_cons.
    + apply des_land_255_lt.
    + apply IHn.
Qed.

Lemma des_expand_key7_length : forall key7,
  length key7 = 7%nat -> length (des_expand_key7 key7) = 8%nat.
Proof.
  intros key7 Hlen. unfold des_expand_key7. rewrite Hlen.
  change (Nat.eqb 7 7) with true. cbn iota.
  apply des_parity_groups_length.
Qed.

Lemma des_expand_key7_bytes : forall key7,
  Forall (fun b => b < 256) (des_expand_key7 key7).
Proof.
  intro key7. unfold des_expand_key7.
  destruct (Nat.eqb (length key7) 7).
  - apply des_parity_groups_bytes.
  - apply Forall_nil.
Qed.

Lemma des_crypt_length : forall key clear,
  (length key = 7%nat \/ length key = 8%nat) -> length clear = 8%nat ->
  length (des_crypt key clear) = 8%nat.
Proof.
  intros key clear [Hkey | Hkey] Hclear; unfold des_crypt; rewrite Hkey.
  - change (Nat.eqb 7 7) with true. cbn iota.
    apply des_length; [ apply des_expand_key7_length; exact Hkey | exact Hclear ].
  - change (Nat.eqb 8 7) with false. cbn iota.
    apply des_length; [ exact Hkey | exact Hclear ].
Qed.

Lemma des_crypt_bytes : forall key clear,
  Forall (fun b => b < 256) (des_crypt key clear).
Proof.
  intros key clear. unfold des_crypt.
  destruct (Nat.eqb (length key) 7); apply des_bytes.
Qed.

(* ---------- known-answer tests ---------- *)

(* the classic worked example *)
Example des_kat_classic :
  des_encrypt [0x13; 0x34; 0x57; 0x79; 0x9b; 0xbc; 0xdf; 0xf1]
              [0x01; 0x23; 0x45; 0x67; 0x89; 0xab; 0xcd; 0xef]
  = [0x85; 0xe8; 0x13; 0x54; 0x0f; 0x0a; 0xb4; 0x05].
Proof. vm_compute. reflexivity. Qed.

(* NBS SP 500-20 / NIST KAT: IP and E test *)
Example des_kat_ip_e_1 :
  des_encrypt [0x01; 0x01; 0x01; 0x01; 0x01; 0x01; 0x01; 0x01]
              [0x95; 0xf8; 0xa5; 0xe5; 0xdd; 0x31; 0xd9; 0x00]
  = [0x80; 0x00; 0x00; 0x00; 0x00; 0x00; 0x00; 0x00].
Proof. vm_compute. reflexivity. Qed.

Example des_kat_ip_e_2 :
  des_encrypt [0x01; 0x01; 0x01; 0x01; 0x01; 0x01; 0x01; 0x01]
              [0xdd; 0x7f; 0x12; 0x1c; 0xa5; 0x01; 0x56; 0x19]
  = [0x40; 0x00; 0x00; 0x00; 0x00; 0x00; 0x00; 0x00].
Proof. vm_compute. reflexivity. Qed.

(* variable plaintext KAT *)
Example des_kat_varplain_1 :
  des_encrypt [0x01; 0x01; 0x01; 0x01; 0x01; 0x01; 0x01; 0x01]
              [0x80; 0x00; 0x00; 0x00; 0x00; 0x00; 0x00; 0x00]
  = [0x95; 0xf8; 0xa5; 0xe5; 0xdd; 0x31; 0xd9; 0x00].
Proof. vm_compute. reflexivity. Qed.

(* variable key KAT *)
Example des_kat_varkey_1 :
  des_encrypt [0x80; 0x01; 0x01; 0x01; 0x01; 0x01; 0x01; 0x01]
              [0x00; 0x00; 0x00; 0x00; 0x00; 0x00; 0x00; 0x00]
  = [0x95; 0xa8; 0xd7; 0x28; 0x13; 0xda; 0xa9; 0x4d].
Proof. vm_compute. reflexivity. Qed.

(* S-box test (table 4, first entry) *)
Example des_kat_sbox_1 :
  des_encrypt [0x7c; 0xa1; 0x10; 0x45; 0x4a; 0x1a; 0x6e; 0x57]
              [0x01; 0xa1; 0xd6; 0xd0; 0x39; 0x77; 0x67; 0x42]
  = [0x69; 0x0f; 0x5b; 0x0d; 0x9a; 0x26; 0x93; 0x9b].
Proof. vm_compute. reflexivity. Qed.

(* parity bits are ignored *)
Example des_kat_parity_ignored :
  des_encrypt [0x12; 0x35; 0x56; 0x78; 0x9a; 0xbd; 0xde; 0xf0]
              [0x01; 0x23; 0x45; 0x67; 0x89; 0xab; 0xcd; 0xef]
  = [0x85; 0xe8; 0x13; 0x54; 0x0f; 0x0a; 0xb4; 0x05].
Proof. vm_compute. reflexivity. Qed.

(* wrong lengths *)
Example des_bad_key_length :
  des_encrypt [1; 2; 3; 4; 5; 6; 7] [1; 2; 3; 4; 5; 6; 7; 8] = [].
Proof. vm_compute. reflexivity. Qed.

Example des_bad_block_length :
  des_encrypt [1; 2; 3; 4; 5; 6; 7; 8] [1; 2; 3; 4; 5; 6; 7; 8; 9] = [].
Proof. vm_compute. reflexivity. Qed.

(* rfc2759/mschapv2_test.go, Test_parityPadDESKey *)
Example des_expand_key7_go_test :
  des_expand_key7 [0x61; 0xee; 0x8b; 0x50; 0x74; 0x8f; 0x5e]
  = [0x61; 0xf7; 0xa2; 0x6b; 0x07; 0xa4; 0x3d; 0xbc].
Proof. vm_compute. reflexivity. Qed.

Print Assumptions des_length.
Print Assumptions des_bytes.
Print Assumptions des_crypt_length.
Print Assumptions des_crypt_bytes.
