(* Base/GoLite.v — a small imperative language, the target of the source
   translator (harness/cmd/srcfacts/golite.go), and its interpreter.

   The translator writes every function of attribute.go / attributes.go /
   packet.go that stays inside the fragment into Gen/Src.v as a value of type
   [func]; Proofs/Src*.v prove, for all inputs, that interpreting that syntax
   tree gives the answer of the hand-written model the property theorems are
   about.  So the theorems are re-checked against what the source says on every
   run, and the interpreter itself is run against the compiled Go code by the
   harness (operation g.<Func>).

   Semantics (what is modelled, see DESIGN A.2):
   - slices, strings and byte arrays are VALUES (list of bytes); the translator
     refuses functions in which that differs observably from Go's reference
     semantics (a write through one name that another live name could see);
   - integers are unbounded Z; every conversion to, and every +,-,*,<< at, a
     sized type narrower than 64 bits or unsigned is wrapped explicitly by an
     [EWrap] the translator inserts from go/types; int and int64 arithmetic is
     not wrapped (no translated function computes anything near 2^63);
   - an out-of-range index, slice bound, negative make, nil dereference or
     division by zero is a run-time panic: [None] / [OFail];
   - loops consume fuel: [OFuel] when more than [n] iterations are needed. *)
From Coq Require Import String.
From Radius Require Import Base.Bytes Crypto.MD5.
Open Scope list_scope.
Open Scope nat_scope.

Inductive val :=
| VInt (z : Z)
| VBool (b : bool)
| VBytes (l : bytes)
| VNil                      (* nil slice, nil pointer, nil error *)
| VErr                      (* a non-nil error (the message is not modelled) *)
| VList (l : list val)      (* []*AVP *)
| VRec (l : list val)       (* struct, fields by position *)
| VTup (l : list val).      (* multiple results *)

Inductive binop :=
| BAdd | BSub | BMul | BDiv | BMod | BAnd | BOr | BXor | BAndNot | BShl | BShr
| BEq | BNe | BLt | BLe | BGt | BGe | BLAnd | BLOr.

Inductive expr :=
| EInt (z : Z)
| EBool (b : bool)
| EStr (s : bytes)                         (* string / []byte literal *)
| ENil
| EErr                                     (* errors.New(...) *)
| EVar (x : nat)
| EBin (op : binop) (a b : expr)
| ENot (a : expr)
| EWrap (bits : Z) (signed : bool) (a : expr)
| ELen (a : expr)
| EIdx (a i : expr)
| ESlice (a : expr) (lo hi : option expr)
| EAppend (a b : expr)                     (* append(a, b...) on bytes *)
| ESnoc (a v : expr)                       (* append(a, v) on a list *)
| ECat (a b : expr)                        (* append(a[:i], a[j:]...) on a list, and string + *)
| EMake (n : expr)                         (* make([]byte, n) / var x [n]byte *)
| EBE (w : nat) (a : expr)                 (* binary.BigEndian.UintW(a) *)
| EBEnc (w : nat) (a : expr)               (* the w bytes PutUintW stores *)
| EMD5 (a : expr)                          (* digest of everything written to a hash *)
| EBytesEq (a b : expr)
| EIndexByte (a c : expr)
| EField (a : expr) (i : nat)
| ERec (fs : list expr)
| ETup (es : list expr)
| ECall (f : string) (args : list expr).

Inductive lval := LVar (x : nat) | LField (l : lval) (f : nat) | LIdx (l : lval) (i : expr).

Inductive stmt :=
| SSkip
| SSeq (a b : stmt)
| SAssign (l : lval) (e : expr)
| SMulti (ls : list (option lval)) (e : expr)          (* a, _ := f() *)
| SCopy (l : lval) (lo : expr) (hi : option expr) (src : expr)   (* copy(l[lo:hi], src) *)
| SIf (c : expr) (a b : stmt)
| SFor (c : expr) (post body : stmt)
| SRet (e : expr)
| SBreak
| SContinue
| SPanic.

Record func := mkfunc { f_params : nat; f_locals : nat; f_body : stmt }.

(* what the translator says about a function it cannot express *)
Inductive translated := Translated (f : func) | Refused (why : string).

Definition ctx := string -> list val -> option val.

(* ---------- values ---------- *)
Definition wrap (bits : Z) (signed : bool) (z : Z) : Z :=
  let m := (2 ^ bits)%Z in
  let r := (z mod m)%Z in
  if signed then (if (r <? 2 ^ (bits - 1))%Z then r else r - m)%Z else r.

Definition as_bytes (v : val) : option bytes :=
  match v with VBytes l => Some l | VNil => Some [] | _ => None end.
Definition as_list (v : val) : option (list val) :=
  match v with VList l => Some l | VNil => Some [] | _ => None end.

(* environments and records are short concrete lists: their own accessors, so that proofs can
   evaluate them while leaving the list functions on (symbolic) data alone *)
Fixpoint vget (env : list val) (x : nat) : option val :=
  match env, x with
  | v :: _, O => Some v
  | _ :: r, S k => vget r k
  | [], _ => None
  end.
Fixpoint vset (env : list val) (x : nat) (v : val) : list val :=
  match env, x with
  | _ :: r, O => v :: r
  | y :: r, S k => y :: vset r k v
  | [], _ => []
  end.
Fixpoint vpad (k : nat) : list val := match k with O => [] | S k' => VNil :: vpad k' end.
Fixpoint vext (args : list val) (k : nat) : list val :=
  match args with [] => vpad k | a :: r => a :: vext r k end.
Fixpoint vcount (l : list val) : nat := match l with [] => O | _ :: r => S (vcount r) end.
Fixpoint same_nat (a b : nat) : bool :=
  match a, b with O, O => true | S a', S b' => same_nat a' b' | _, _ => false end.

Definition set_nth {A} (n : nat) (x : A) (l : list A) : list A := firstn n l ++ x :: skipn (S n) l.

Definition in_range (z : Z) (n : nat) : bool := ((0 <=? z) && (z <? Z.of_nat n))%Z.

Definition val_eq (a b : val) : option bool :=
  match a, b with
  | VInt x, VInt y => Some (x =? y)%Z
  | VBool x, VBool y => Some (Bool.eqb x y)
  | VNil, VNil => Some true
  | VNil, (VBytes _ | VErr | VList _ | VRec _) => Some false
  | (VBytes _ | VErr | VList _ | VRec _), VNil => Some false
  | _, _ => None
  end.

Definition arith (op : binop) (x y : Z) : option val :=
  match op with
  | BAdd => Some (VInt (x + y))
  | BSub => Some (VInt (x - y))
  | BMul => Some (VInt (x * y))
  | BDiv => if (y =? 0)%Z then None else Some (VInt (Z.quot x y))
  | BMod => if (y =? 0)%Z then None else Some (VInt (Z.rem x y))
  | BAnd => Some (VInt (Z.land x y))
  | BOr => Some (VInt (Z.lor x y))
  | BXor => Some (VInt (Z.lxor x y))
  | BAndNot => Some (VInt (Z.ldiff x y))
  | BShl => if (y <? 0)%Z then None else Some (VInt (Z.shiftl x y))
  | BShr => if (y <? 0)%Z then None else Some (VInt (Z.shiftr x y))
  | BLt => Some (VBool (x <? y)%Z)
  | BLe => Some (VBool (x <=? y)%Z)
  | BGt => Some (VBool (x >? y)%Z)
  | BGe => Some (VBool (x >=? y)%Z)
  | _ => None
  end.

Definition zbytes (l : bytes) : list Z := map Z.of_N l.

Fixpoint index_byte (l : bytes) (c : N) (i : Z) : Z :=
  match l with
  | [] => (-1)%Z
  | x :: r => if (x =? c)%N then i else index_byte r c (i + 1)%Z
  end.

Definition slice_of {A} (l : list A) (lo hi : Z) : option (list A) :=
  if ((0 <=? lo) && (lo <=? hi) && (hi <=? Z.of_nat (length l)))%Z
  then Some (firstn (Z.to_nat hi - Z.to_nat lo) (skipn (Z.to_nat lo) l)) else None.

(* ---------- expressions ---------- *)
Section Eval.
Variable cx : ctx.

Fixpoint eval (env : list val) (e : expr) {struct e} : option val :=
  let evals := fix evals (l : list expr) : option (list val) :=
    match l with
    | [] => Some []
    | x :: r => match eval env x with
                | Some v => match evals r with Some vs => Some (v :: vs) | None => None end
                | None => None
                end
    end in
  let evopt := fun (o : option expr) (d : Z) =>
    match o with
    | None => Some d
    | Some x => match eval env x with Some (VInt z) => Some z | _ => None end
    end in
  match e with
  | EInt z => Some (VInt z)
  | EBool b => Some (VBool b)
  | EStr s => Some (VBytes s)
  | ENil => Some VNil
  | EErr => Some VErr
  | EVar x => vget env x
  | EBin BLAnd a b =>
    match eval env a with
    | Some (VBool false) => Some (VBool false)
    | Some (VBool true) => match eval env b with Some (VBool r) => Some (VBool r) | _ => None end
    | _ => None
    end
  | EBin BLOr a b =>
    match eval env a with
    | Some (VBool true) => Some (VBool true)
    | Some (VBool false) => match eval env b with Some (VBool r) => Some (VBool r) | _ => None end
    | _ => None
    end
  | EBin BEq a b =>
    match eval env a, eval env b with
    | Some x, Some y => match val_eq x y with Some r => Some (VBool r) | None => None end
    | _, _ => None
    end
  | EBin BNe a b =>
    match eval env a, eval env b with
    | Some x, Some y => match val_eq x y with Some r => Some (VBool (negb r)) | None => None end
    | _, _ => None
    end
  | EBin op a b =>
    match eval env a, eval env b with
    | Some (VInt x), Some (VInt y) => arith op x y
    | _, _ => None
    end
  | ENot a => match eval env a with Some (VBool b) => Some (VBool (negb b)) | _ => None end
  | EWrap bits sg a => match eval env a with Some (VInt z) => Some (VInt (wrap bits sg z)) | _ => None end
  | ELen a =>
    match eval env a with
    | Some (VBytes l) => Some (VInt (Z.of_nat (length l)))
    | Some (VList l) => Some (VInt (Z.of_nat (length l)))
    | Some VNil => Some (VInt 0)
    | _ => None
    end
  | EIdx a i =>
    match eval env a, eval env i with
    | Some (VBytes l), Some (VInt k) =>
      if in_range k (length l) then Some (VInt (Z.of_N (nth (Z.to_nat k) l 0%N))) else None
    | Some (VList l), Some (VInt k) =>
      if in_range k (length l) then nth_error l (Z.to_nat k) else None
    | _, _ => None
    end
  | ESlice a lo hi =>
    match eval env a with
    | Some (VBytes l) =>
      match evopt lo 0%Z, evopt hi (Z.of_nat (length l)) with
      | Some x, Some y => match slice_of l x y with Some r => Some (VBytes r) | None => None end
      | _, _ => None
      end
    | Some (VList l) =>
      match evopt lo 0%Z, evopt hi (Z.of_nat (length l)) with
      | Some x, Some y => match slice_of l x y with Some r => Some (VList r) | None => None end
      | _, _ => None
      end
    | Some VNil =>
      match evopt lo 0%Z, evopt hi 0%Z with
      | Some x, Some y => if ((x =? 0) && (y =? 0))%Z then Some VNil else None
      | _, _ => None
      end
    | _ => None
    end
  | EAppend a b =>
    match eval env a, eval env b with
    | Some x, Some y =>
      match as_bytes x, as_bytes y with
      | Some l1, Some l2 =>
        match x, l2 with
        | VNil, [] => Some VNil
        | _, _ => Some (VBytes (l1 ++ l2))
        end
      | _, _ => None
      end
    | _, _ => None
    end
  | ESnoc a v =>
    match eval env a, eval env v with
    | Some x, Some y => match as_list x with Some l => Some (VList (l ++ [y])) | None => None end
    | _, _ => None
    end
  | ECat a b =>
    match eval env a, eval env b with
    | Some (VList l1), Some (VList l2) => Some (VList (l1 ++ l2))
    | Some (VBytes l1), Some (VBytes l2) => Some (VBytes (l1 ++ l2))
    | _, _ => None
    end
  | EMake n =>
    match eval env n with
    | Some (VInt z) => if (z <? 0)%Z then None else Some (VBytes (repeat 0%N (Z.to_nat z)))
    | _ => None
    end
  | EBE w a =>
    match eval env a with
    | Some v => match as_bytes v with
                | Some l => if length l <? w then None else Some (VInt (Z.of_N (be_dec (firstn w l))))
                | None => None
                end
    | None => None
    end
  | EBEnc w a =>
    match eval env a with
    | Some (VInt z) => if (z <? 0)%Z then None else Some (VBytes (be_enc w (Z.to_N z)))
    | _ => None
    end
  | EMD5 a =>
    match eval env a with
    | Some v => match as_bytes v with Some l => Some (VBytes (md5 l)) | None => None end
    | None => None
    end
  | EBytesEq a b =>
    match eval env a, eval env b with
    | Some x, Some y =>
      match as_bytes x, as_bytes y with
      | Some l1, Some l2 => Some (VBool (beq l1 l2))
      | _, _ => None
      end
    | _, _ => None
    end
  | EIndexByte a c =>
    match eval env a, eval env c with
    | Some x, Some (VInt k) =>
      match as_bytes x with
      | Some l => Some (VInt (index_byte l (Z.to_N k) 0))
      | None => None
      end
    | _, _ => None
    end
  | EField a i =>
    match eval env a with
    | Some (VRec fs) => vget fs i
    | _ => None
    end
  | ERec fs => match evals fs with Some vs => Some (VRec vs) | None => None end
  | ETup es => match evals es with Some vs => Some (VTup vs) | None => None end
  | ECall f args => match evals args with Some vs => cx f vs | None => None end
  end.

(* ---------- stores ---------- *)
(* apply [upd] to the location an lvalue denotes *)
Fixpoint lupdate (env : list val) (l : lval) (upd : val -> option val) {struct l} : option (list val) :=
  match l with
  | LVar x =>
    match vget env x with
    | Some v => match upd v with Some v' => Some (vset env x v') | None => None end
    | None => None
    end
  | LField l' f =>
    lupdate env l' (fun r =>
      match r with
      | VRec fs =>
        match vget fs f with
        | Some v => match upd v with Some v' => Some (VRec (vset fs f v')) | None => None end
        | None => None
        end
      | _ => None
      end)
  | LIdx l' i =>
    match eval env i with
    | Some (VInt k) =>
      lupdate env l' (fun c =>
        match c with
        | VBytes bs =>
          if in_range k (length bs) then
            match upd (VInt (Z.of_N (nth (Z.to_nat k) bs 0%N))) with
            | Some (VInt b) => if ((0 <=? b) && (b <? 256))%Z
                               then Some (VBytes (set_nth (Z.to_nat k) (Z.to_N b) bs)) else None
            | _ => None
            end
          else None
        | VList vs =>
          if in_range k (length vs) then
            match nth_error vs (Z.to_nat k) with
            | Some v => match upd v with Some v' => Some (VList (set_nth (Z.to_nat k) v' vs)) | None => None end
            | None => None
            end
          else None
        | _ => None
        end)
    | _ => None
    end
  end.

Definition copy_into (d : bytes) (lo hi : Z) (s : bytes) : option bytes :=
  if ((0 <=? lo) && (lo <=? hi) && (hi <=? Z.of_nat (length d)))%Z then
    let n := Nat.min (Z.to_nat hi - Z.to_nat lo) (length s) in
    Some (firstn (Z.to_nat lo) d ++ firstn n s ++ skipn (Z.to_nat lo + n) d)
  else None.

Fixpoint assign_all (env : list val) (ls : list (option lval)) (vs : list val) : option (list val) :=
  match ls, vs with
  | [], [] => Some env
  | None :: ls', _ :: vs' => assign_all env ls' vs'
  | Some l :: ls', v :: vs' =>
    match lupdate env l (fun _ => Some v) with
    | Some env' => assign_all env' ls' vs'
    | None => None
    end
  | _, _ => None
  end.

(* ---------- statements ---------- *)
Inductive out :=
| ONorm (env : list val) | ORet (v : val) | OBrk (env : list val) | OCont (env : list val)
| OFail | OFuel.

Definition loop (cond : list val -> option val) (body post : list val -> out) : nat -> list val -> out :=
  fix loop (k : nat) (env : list val) : out :=
    match k with
    | O => OFuel
    | S k' =>
      match cond env with
      | Some (VBool true) =>
        match body env with
        | ONorm env' | OCont env' =>
          match post env' with
          | ONorm env'' => loop k' env''
          | ORet v => ORet v
          | OFuel => OFuel
          | _ => OFail
          end
        | OBrk env' => ONorm env'
        | o => o
        end
      | Some (VBool false) => ONorm env
      | _ => OFail
      end
    end.

Fixpoint exec (n : nat) (s : stmt) (env : list val) {struct s} : out :=
  match s with
  | SSkip => ONorm env
  | SSeq a b => match exec n a env with ONorm env' => exec n b env' | o => o end
  | SAssign l e =>
    match eval env e with
    | Some v => match lupdate env l (fun _ => Some v) with Some env' => ONorm env' | None => OFail end
    | None => OFail
    end
  | SMulti ls e =>
    match eval env e with
    | Some (VTup vs) => match assign_all env ls vs with Some env' => ONorm env' | None => OFail end
    | _ => OFail
    end
  | SCopy l lo hi src =>
    match eval env src, eval env lo with
    | Some sv, Some (VInt x) =>
      match as_bytes sv with
      | Some sb =>
        let r := lupdate env l (fun c =>
          match as_bytes c with
          | Some d =>
            match (match hi with
                   | None => Some (Z.of_nat (length d))
                   | Some h => match eval env h with Some (VInt y) => Some y | _ => None end
                   end) with
            | Some y =>
              match copy_into d x y sb with
              | Some d' => Some (match c, d' with VNil, [] => VNil | _, _ => VBytes d' end)
              | None => None
              end
            | None => None
            end
          | None => None
          end) in
        match r with Some env' => ONorm env' | None => OFail end
      | None => OFail
      end
    | _, _ => OFail
    end
  | SIf c a b =>
    match eval env c with
    | Some (VBool true) => exec n a env
    | Some (VBool false) => exec n b env
    | _ => OFail
    end
  | SFor c post body => loop (fun env => eval env c) (exec n body) (exec n post) n env
  | SRet e => match eval env e with Some v => ORet v | None => OFail end
  | SBreak => OBrk env
  | SContinue => OCont env
  | SPanic => OFail
  end.

(* result of a call: [Some (Some v)] returned v; [Some None] panicked; [None] out of fuel *)
Definition run (n : nat) (f : func) (args : list val) : option (option val) :=
  if negb (same_nat (vcount args) (f_params f)) then Some None else
  match exec n (f_body f) (vext args (f_locals f)) with
  | ORet v => Some (Some v)
  | OFuel => None
  | _ => Some None
  end.

End Eval.

(* ---------- the call context ---------- *)
(* library functions outside the translated files, by their documented behaviour
   (net.IP.To4 / To16, IPMask.Size, CIDRMask are in Model/Codecs.v's terms) *)
Definition lookup_fn (tbl : list (string * translated)) (name : string) : option func :=
  match find (fun p => String.eqb (fst p) name) tbl with
  | Some (_, Translated f) => Some f
  | _ => None
  end.

(* calls resolve to translated functions [depth] levels deep, to [prims] otherwise;
   a callee that runs out of fuel or panics makes the call panic *)
Fixpoint ctx_of (prims : ctx) (tbl : list (string * translated)) (fuel : nat) (depth : nat) : ctx :=
  match depth with
  | O => prims
  | S d => fun name args =>
    match lookup_fn tbl name with
    | Some f => match run (ctx_of prims tbl fuel d) fuel f args with Some (Some v) => Some v | _ => None end
    | None => prims name args
    end
  end.
