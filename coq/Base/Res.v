(* Base/Res.v — outcome of a modelled Go call: value, error (class), run-time
   panic (index/slice out of range, close of closed channel, ...), or the
   model's fuel ran out (a loop that did not finish within the stated bound). *)
From Coq Require Import NArith List Lia Arith.
Import ListNotations.

Inductive res (A : Type) : Type :=
| Ok (a : A) | Err (e : N) | Panic | OutOfFuel.
Arguments Ok {A} a. Arguments Err {A} e. Arguments Panic {A}. Arguments OutOfFuel {A}.

Lemma Ok_inj {A} (a b : A) : Ok a = Ok b -> a = b.
Proof. intros H; injection H; auto. Qed.

Definition bind {A B} (r : res A) (f : A -> res B) : res B :=
  match r with Ok a => f a | Err e => Err e | Panic => Panic | OutOfFuel => OutOfFuel end.

Definition is_ok {A} (r : res A) : bool := match r with Ok _ => true | _ => false end.
Definition is_err {A} (r : res A) : bool := match r with Err _ => true | _ => false end.

(* error classes (small enum; error text is never compared) *)
Definition E_short : N := 1.        (* packet not at least 20 bytes *)
Definition E_badlen : N := 2.       (* invalid packet length *)
Definition E_attr_short : N := 3.   (* short buffer *)
Definition E_attr_len : N := 4.     (* invalid attribute length *)
Definition E_attr_big : N := 5.     (* attribute too large *)
Definition E_pkt_big : N := 6.      (* packet is too large *)
Definition E_unknown_code : N := 7. (* unknown Packet Code *)
Definition E_invalid : N := 8.      (* generic "invalid ..." error of a codec *)

(* ---- list surgery used by the in-place loops of the Go code ---- *)
Section ListX.
Context {A : Type}.
Implicit Types l : list A.

Lemma nth_error_skipn_cons l i a :
  nth_error l i = Some a -> skipn i l = a :: skipn (S i) l.
Proof.
  revert i; induction l as [|x l IH]; intros [|i] H; simpl in *; try discriminate.
  - inversion H; reflexivity.
  - apply IH in H. destruct l; [destruct i; discriminate|]. exact H.
Qed.

Lemma nth_error_lt_Some l i : i < length l -> exists a, nth_error l i = Some a.
Proof.
  intros H. destruct (nth_error l i) eqn:E; [eauto|].
  apply nth_error_None in E. lia.
Qed.

Definition remove_at (i : nat) l : list A := firstn i l ++ skipn (S i) l.
Definition update_at (i : nat) (x : A) l : list A := firstn i l ++ x :: skipn (S i) l.

Lemma remove_at_eq i l : remove_at i l = firstn i l ++ skipn (S i) l.
Proof. reflexivity. Qed.
Lemma update_at_eq i x l : update_at i x l = firstn i l ++ x :: skipn (S i) l.
Proof. reflexivity. Qed.

Lemma remove_at_length l i : i < length l -> length (remove_at i l) = length l - 1.
Proof. intros H. rewrite remove_at_eq. rewrite app_length, firstn_length, skipn_length. lia. Qed.

Lemma update_at_length l i x : i < length l -> length (update_at i x l) = length l.
Proof. intros H. rewrite update_at_eq. rewrite app_length, firstn_length. cbn [length]. rewrite skipn_length. lia. Qed.

Lemma firstn_app_exact l1 l2 : firstn (length l1) (l1 ++ l2) = l1.
Proof. rewrite firstn_app, Nat.sub_diag, firstn_all. simpl. apply app_nil_r. Qed.

Lemma skipn_app_exact l1 l2 : skipn (length l1) (l1 ++ l2) = l2.
Proof. rewrite skipn_app, Nat.sub_diag, skipn_all. reflexivity. Qed.

Lemma remove_at_firstn l i : i <= length l -> firstn i (remove_at i l) = firstn i l.
Proof.
  intros H. rewrite remove_at_eq.
  replace i with (length (firstn i l)) at 1 by (rewrite firstn_length; lia).
  apply firstn_app_exact.
Qed.

Lemma remove_at_skipn l i : i <= length l -> skipn i (remove_at i l) = skipn (S i) l.
Proof.
  intros H. rewrite remove_at_eq.
  replace i with (length (firstn i l)) at 1 by (rewrite firstn_length; lia).
  apply skipn_app_exact.
Qed.

Lemma update_at_firstn_S l i x : i <= length l -> firstn (S i) (update_at i x l) = firstn i l ++ [x].
Proof.
  intros H. rewrite update_at_eq.
  replace (firstn i l ++ x :: skipn (S i) l) with ((firstn i l ++ [x]) ++ skipn (S i) l)
    by (rewrite <- app_assoc; reflexivity).
  replace (S i) with (length (firstn i l ++ [x])) at 1
    by (rewrite app_length, firstn_length; cbn [length]; lia).
  apply firstn_app_exact.
Qed.

Lemma update_at_skipn_S l i x : i <= length l -> skipn (S i) (update_at i x l) = skipn (S i) l.
Proof.
  intros H. rewrite update_at_eq.
  replace (firstn i l ++ x :: skipn (S i) l) with ((firstn i l ++ [x]) ++ skipn (S i) l)
    by (rewrite <- app_assoc; reflexivity).
  replace (S i) with (length (firstn i l ++ [x])) at 1
    by (rewrite app_length, firstn_length; cbn [length]; lia).
  apply skipn_app_exact.
Qed.

Lemma firstn_S_snoc l i a : nth_error l i = Some a -> firstn (S i) l = firstn i l ++ [a].
Proof.
  revert i; induction l as [|x l IH]; intros [|i] H; simpl in *; try discriminate.
  - inversion H; reflexivity.
  - f_equal. apply IH. exact H.
Qed.

Lemma nth_error_Some_lt l i a : nth_error l i = Some a -> i < length l.
Proof. intros H. apply nth_error_Some. congruence. Qed.

Lemma skipn_skipn' a b l : skipn a (skipn b l) = skipn (b + a) l.
Proof.
  revert l; induction b as [|b IH]; intros l; [reflexivity|].
  destruct l as [|x l]; [destruct a; reflexivity|]. cbn [skipn plus]. apply IH.
Qed.

Lemma skipn_length_le l i : length l <= i -> skipn i l = [].
Proof. apply skipn_all2. Qed.
End ListX.
