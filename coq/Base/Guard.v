(* Base/Guard.v — comparison guards read from the Go source by srcfacts.
   A guard is "<expr> <op> <integer constant>" exactly as it stands in a Go
   function; the models evaluate the guards of Gen/Consts.v instead of
   hard-wiring the literals, so the theorems are re-checked against the source. *)
From Coq Require Import ZArith List String Bool.
Import ListNotations.
Open Scope Z_scope.

Inductive cmpop := OpGT | OpGE | OpLT | OpLE | OpEQ | OpNE.
Record guard := { gexpr : string; gop : cmpop; glit : Z }.

Definition bad_guard : guard := {| gexpr := "<missing guard>"; gop := OpNE; glit := -424242 |}.

Definition gd (l : list guard) (i : nat) : guard := nth i l bad_guard.

Definition holds (g : guard) (x : Z) : bool :=
  match gop g with
  | OpGT => x >? glit g
  | OpGE => x >=? glit g
  | OpLT => x <? glit g
  | OpLE => x <=? glit g
  | OpEQ => x =? glit g
  | OpNE => negb (x =? glit g)
  end.

(* shape check used by Model/Guards.v: the i-th guard of a function still
   talks about the expression the model attaches it to *)
Definition gexpr_is (l : list guard) (i : nat) (s : string) : bool :=
  if string_dec (gexpr (gd l i)) s then true else false.

(* switch-case lists *)
Definition sw (l : list (list (list Z))) (i j : nat) : list Z := nth j (nth i l []) [].
Fixpoint zmem (x : Z) (l : list Z) : bool :=
  match l with [] => false | y :: r => (x =? y) || zmem x r end.

Lemma zmem_In x l : zmem x l = true <-> In x l.
Proof.
  induction l as [|y l IH]; simpl; [split; [discriminate|tauto]|].
  rewrite orb_true_iff, IH, Z.eqb_eq. split; intros [H|H]; auto.
Qed.
