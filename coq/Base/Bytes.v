(* Base/Bytes.v — bytes as N, big-endian words, xor; shared by every model. *)
From Coq Require Export List NArith ZArith Lia Bool Arith.
From Coq Require Import ZifyN ZifyNat ZifyBool.
Export ListNotations.
Ltac Zify.zify_post_hook ::= Z.div_mod_to_equations.

Definition bytes := list N.
Definition byte_ok (b : N) : Prop := (b < 256)%N.
Definition bytes_ok (l : bytes) : Prop := Forall byte_ok l.
Definition byte_okb (b : N) : bool := (b <? 256)%N.
Definition bytes_okb (l : bytes) : bool := forallb byte_okb l.

Lemma bytes_okb_spec l : bytes_okb l = true <-> bytes_ok l.
Proof.
  unfold bytes_okb, bytes_ok. rewrite forallb_forall, Forall_forall.
  split; intros H x Hx; specialize (H x Hx); unfold byte_okb, byte_ok in *; lia.
Qed.

Lemma bytes_ok_app a b : bytes_ok (a ++ b) <-> bytes_ok a /\ bytes_ok b.
Proof. unfold bytes_ok. apply Forall_app. Qed.

Lemma bytes_ok_firstn n l : bytes_ok l -> bytes_ok (firstn n l).
Proof.
  unfold bytes_ok. intros H. rewrite Forall_forall in *. intros x Hx.
  apply H. eapply (In_nth _ _ 0%N) in Hx. destruct Hx as [i [Hi Hn]].
  rewrite <- (firstn_skipn n l). apply in_or_app. left.
  rewrite <- Hn. apply nth_In. exact Hi.
Qed.

Lemma bytes_ok_skipn n l : bytes_ok l -> bytes_ok (skipn n l).
Proof.
  unfold bytes_ok. intros H. rewrite Forall_forall in *. intros x Hx.
  apply H. rewrite <- (firstn_skipn n l). apply in_or_app. right. exact Hx.
Qed.

Lemma bytes_ok_repeat0 n : bytes_ok (repeat 0%N n).
Proof. induction n; simpl; constructor; auto. unfold byte_ok; lia. Qed.

(* equality on byte strings *)
Fixpoint beq (a b : bytes) : bool :=
  match a, b with
  | [], [] => true
  | x :: a', y :: b' => (x =? y)%N && beq a' b'
  | _, _ => false
  end.

Lemma beq_spec a b : beq a b = true <-> a = b.
Proof.
  revert b; induction a as [|x a IH]; destruct b as [|y b]; simpl; split; intros H;
    try discriminate; try reflexivity.
  - apply andb_true_iff in H. destruct H as [H1 H2]. apply N.eqb_eq in H1.
    apply IH in H2. subst. reflexivity.
  - inversion H; subst. rewrite N.eqb_refl. simpl. apply IH. reflexivity.
Qed.

Lemma beq_refl a : beq a a = true.
Proof. apply beq_spec. reflexivity. Qed.

Lemma beq_false a b : beq a b = false <-> a <> b.
Proof.
  split; intros H.
  - intros E. apply beq_spec in E. congruence.
  - destruct (beq a b) eqn:E; auto. apply beq_spec in E. contradiction.
Qed.

(* ---------- big-endian words ---------- *)
Fixpoint be_dec_acc (acc : N) (b : bytes) : N :=
  match b with [] => acc | x :: r => be_dec_acc (acc * 256 + x) r end.
Definition be_dec (b : bytes) : N := be_dec_acc 0 b.

Fixpoint be_enc (k : nat) (n : N) : bytes :=
  match k with O => [] | S k' => be_enc k' (n / 256) ++ [n mod 256] end%N.

Lemma be_dec_acc_app acc a b : be_dec_acc acc (a ++ b) = be_dec_acc (be_dec_acc acc a) b.
Proof. revert acc; induction a as [|x a IH]; simpl; intros; auto. Qed.

Lemma be_dec_snoc b x : be_dec (b ++ [x]) = (be_dec b * 256 + x)%N.
Proof. unfold be_dec. rewrite be_dec_acc_app. reflexivity. Qed.

Lemma be_enc_length k n : length (be_enc k n) = k.
Proof. revert n; induction k as [|k IH]; simpl; intros; auto. rewrite app_length, IH. simpl. lia. Qed.

Lemma be_enc_ok k n : bytes_ok (be_enc k n).
Proof.
  revert n; induction k as [|k IH]; simpl; intros n.
  - constructor.
  - apply bytes_ok_app. split; auto. constructor; [|constructor].
    unfold byte_ok. apply N.mod_lt. lia.
Qed.

Lemma be_dec_enc k n : be_dec (be_enc k n) = (n mod 256 ^ N.of_nat k)%N.
Proof.
  revert n; induction k as [|k IH]; intros n.
  - simpl. rewrite N.mod_1_r. reflexivity.
  - cbn [be_enc]. rewrite be_dec_snoc, IH.
    replace (N.of_nat (S k)) with (N.succ (N.of_nat k)) by lia.
    rewrite N.pow_succ_r'.
    assert (Hp : (256 ^ N.of_nat k <> 0)%N) by (apply N.pow_nonzero; lia).
    set (p := (256 ^ N.of_nat k)%N) in *.
    rewrite N.mod_mul_r by lia. lia.
Qed.

Lemma be_dec_enc_small k n : (n < 256 ^ N.of_nat k)%N -> be_dec (be_enc k n) = n.
Proof. intros H. rewrite be_dec_enc. apply N.mod_small. exact H. Qed.

Lemma be_dec_bound b : bytes_ok b -> (be_dec b < 256 ^ N.of_nat (length b))%N.
Proof.
  induction b as [|x b IH] using rev_ind; intros H.
  - simpl. unfold be_dec. simpl. lia.
  - apply bytes_ok_app in H. destruct H as [Hb Hx]. inversion Hx as [|? ? Hx' _]; subst.
    rewrite be_dec_snoc, app_length. simpl.
    replace (N.of_nat (length b + 1)) with (N.succ (N.of_nat (length b))) by lia.
    rewrite N.pow_succ_r'. specialize (IH Hb). unfold byte_ok in Hx'. lia.
Qed.

Lemma be_enc_dec b : bytes_ok b -> be_enc (length b) (be_dec b) = b.
Proof.
  induction b as [|x b IH] using rev_ind; intros H.
  - reflexivity.
  - apply bytes_ok_app in H. destruct H as [Hb Hx]. inversion Hx as [|? ? Hx' _]; subst.
    rewrite app_length. simpl. replace (length b + 1)%nat with (S (length b)) by lia.
    cbn [be_enc]. rewrite be_dec_snoc. unfold byte_ok in Hx'.
    replace ((be_dec b * 256 + x) / 256)%N with (be_dec b) by lia.
    replace ((be_dec b * 256 + x) mod 256)%N with x by lia.
    rewrite IH by exact Hb. reflexivity.
Qed.

Lemma be_enc_inj k a b :
  (a < 256 ^ N.of_nat k)%N -> (b < 256 ^ N.of_nat k)%N -> be_enc k a = be_enc k b -> a = b.
Proof.
  intros Ha Hb E. rewrite <- (be_dec_enc_small k a Ha), <- (be_dec_enc_small k b Hb), E. reflexivity.
Qed.

(* ---------- xor ---------- *)
Lemma lxor_byte a b : byte_ok a -> byte_ok b -> byte_ok (N.lxor a b).
Proof.
  unfold byte_ok. intros Ha Hb.
  destruct (N.eq_dec (N.lxor a b) 0) as [E|E]; [rewrite E; lia|].
  change 256%N with (2 ^ 8)%N in *.
  apply N.log2_lt_pow2; [lia|].
  eapply N.le_lt_trans; [apply N.log2_lxor|].
  apply N.max_lub_lt.
  - destruct (N.eq_dec a 0) as [Ea|Ea]; [subst; simpl; lia | apply N.log2_lt_pow2; lia].
  - destruct (N.eq_dec b 0) as [Eb|Eb]; [subst; simpl; lia | apply N.log2_lt_pow2; lia].
Qed.

Lemma lxor_cancel a b : N.lxor (N.lxor a b) b = a.
Proof. rewrite N.lxor_assoc, N.lxor_nilpotent, N.lxor_0_r. reflexivity. Qed.

Lemma lxor_cancel_l a b : N.lxor a (N.lxor a b) = b.
Proof. rewrite <- N.lxor_assoc, N.lxor_nilpotent, N.lxor_0_l. reflexivity. Qed.

(* pointwise xor of two strings, result as long as the first; the second is
   treated as zero-extended (this is how the Go loops `enc[i] ^= p[i]` with
   `i < len(p)` behave). *)
Fixpoint xor_pad (a b : bytes) : bytes :=
  match a, b with
  | [], _ => []
  | x :: a', [] => x :: a'
  | x :: a', y :: b' => N.lxor x y :: xor_pad a' b'
  end.

Lemma xor_pad_length a b : length (xor_pad a b) = length a.
Proof. revert b; induction a as [|x a IH]; destruct b; simpl; auto. Qed.

Lemma xor_pad_ok a b : bytes_ok a -> bytes_ok b -> bytes_ok (xor_pad a b).
Proof.
  revert b; induction a as [|x a IH]; intros b Ha Hb; simpl; [constructor|].
  inversion Ha; subst. destruct b as [|y b]; [constructor; auto|].
  inversion Hb; subst. constructor; [apply lxor_byte; auto|apply IH; auto].
Qed.

Lemma xor_pad_nil_r a : xor_pad a [] = a.
Proof. destruct a; reflexivity. Qed.

Lemma xor_pad_involutive a b : (length b <= length a)%nat -> xor_pad (xor_pad a b) b = a.
Proof.
  revert b; induction a as [|x a IH]; intros b H; simpl; auto.
  destruct b as [|y b]; simpl; auto. rewrite lxor_cancel, IH; auto. simpl in H. lia.
Qed.

(* zero padding on the right up to n *)
Definition pad_to (n : nat) (l : bytes) : bytes := l ++ repeat 0%N (n - length l).

Lemma pad_to_length n l : (length l <= n)%nat -> length (pad_to n l) = n.
Proof. intros H. unfold pad_to. rewrite app_length, repeat_length. lia. Qed.

Lemma lxor_0_r' x : N.lxor x 0 = x.
Proof. apply N.lxor_0_r. Qed.

Lemma xor_pad_pad_to a b : (length b <= length a)%nat ->
  xor_pad a (pad_to (length a) b) = xor_pad a b.
Proof.
  revert b; induction a as [|x a IH]; intros b H; simpl; auto.
  destruct b as [|y b]; simpl.
  - unfold pad_to. simpl. rewrite N.lxor_0_r. f_equal.
    specialize (IH [] ltac:(simpl; lia)). unfold pad_to in IH. simpl in IH.
    rewrite Nat.sub_0_r in IH. rewrite IH. apply xor_pad_nil_r.
  - f_equal. unfold pad_to in *. simpl in *. apply IH. lia.
Qed.

(* index of the first zero byte *)
Fixpoint take_until_nul (l : bytes) : bytes :=
  match l with [] => [] | x :: r => if (x =? 0)%N then [] else x :: take_until_nul r end.

Lemma take_until_nul_id l : ~ In 0%N l -> take_until_nul l = l.
Proof.
  induction l as [|x l IH]; simpl; intros H; auto.
  destruct (N.eqb_spec x 0); [exfalso; apply H; left; auto|].
  f_equal. apply IH. intros Hin. apply H. right. exact Hin.
Qed.

Lemma take_until_nul_app_zeros l n : take_until_nul (l ++ repeat 0%N n) = take_until_nul l.
Proof.
  induction l as [|x l IH]; simpl.
  - destruct n; reflexivity.
  - destruct (x =? 0)%N; auto. f_equal. exact IH.
Qed.

(* hex-free helper used by the driver: N list from a Z *)
Definition zbyte (z : Z) : N := Z.to_N (z mod 256).
Lemma zbyte_ok z : byte_ok (zbyte z).
Proof. unfold byte_ok, zbyte. lia. Qed.
