(* Extract/SrcDriver.v — driver entry for the translated source (Gen/Src.v
   interpreted by Base/GoLite.v):
   m.src.<Key> | bytes operands | n, then the n arguments as value tokens *)
From Coq Require Import String Ascii.
From Radius Require Import Base.Bytes Base.GoLite Gen.Src Model.SrcRun Model.Dict.
Open Scope list_scope.
Open Scope nat_scope.

Definition rtok := (Z + bytes)%type.

Fixpoint t_val (v : val) : list rtok :=
  match v with
  | VInt z => [inl 0%Z; inl z]
  | VBool b => [inl 1%Z; inl (if b then 1 else 0)%Z]
  | VBytes l => [inl 2%Z; inr l]
  | VNil => [inl 3%Z]
  | VErr => [inl 4%Z]
  | VList l => inl 5%Z :: inl (Z.of_nat (List.length l)) :: flat_map t_val l
  | VRec l => inl 6%Z :: inl (Z.of_nat (List.length l)) :: flat_map t_val l
  | VTup l => inl 7%Z :: inl (Z.of_nat (List.length l)) :: flat_map t_val l
  end.

Definition b2s (l : bytes) : string :=
  fold_right (fun c acc => String (ascii_of_N c) acc) EmptyString l.

Definition dispatch_src_raw (name : bytes) (bs : list bytes) (zs : list Z) : option (list rtok) :=
  if beq (firstn 6 name) (s2b "m.src.") then
    Some match zs with
    | n :: zs' =>
      match take_vals (Z.to_nat n) zs' bs with
      | Some args =>
        let fuel := 1000 + 4 * fold_right (fun x acc => size_val x + acc) 0 args in
        match src_run (b2s (skipn 6 name)) fuel args with
        | Some (Some v) => inl 0%Z :: t_val v
        | Some None => [inl 2%Z]
        | None => [inl 3%Z]
        end
      | None => [inl (-96)%Z]
      end
    | [] => [inl (-96)%Z]
    end
  else None.
