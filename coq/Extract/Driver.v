(* Extract/Driver.v — one dispatcher over every executable model and spec
   oracle.  The OCaml driver (ocaml/driver.ml) and the in-Coq cross-check
   (cases.v, vm_compute) both call [dispatch]; the Go harness produces the same
   token stream from the real implementation. *)
From Coq Require Import String Ascii.
From Radius Require Import Base.Bytes Base.Guard Base.Res Gen.Consts
  Model.Gen Model.Mem Model.Attrs Model.Packet Model.Passwords Model.Codecs Model.Client Model.Exchange Model.Dict Model.DictMerge Model.MSCHAP Spec.C19 Model.Vendor Model.Helpers Model.Dispatch Spec.C06 Model.Shutdown Model.ShutdownSched Spec.C05 Spec.C10 Spec.C09 Spec.C01 Spec.C03 Spec.C04 Spec.C11.
From Radius Require Extract.SrcDriver.
From Radius Require Import Crypto.MD5 Crypto.SHA1 Crypto.MD4 Crypto.DES Crypto.UTF16.
Open Scope list_scope.
Open Scope nat_scope.

Inductive tok := TI (z : Z) | TB (b : bytes).


Definition name_is (name : bytes) (s : string) : bool := beq name (s2b s).

(* result classes *)
Definition t_res {A} (r : res A) (f : A -> list tok) : list tok :=
  match r with
  | Ok a => TI 0 :: f a
  | Err e => [TI 1; TI (Z.of_N e)]
  | Panic => [TI 2]
  | OutOfFuel => [TI 3]
  end.

(* spec oracles report "refused" without an error class: the statements only
   say that an error is returned *)
Definition t_res_s {A} (r : res A) (f : A -> list tok) : list tok :=
  match r with
  | Ok a => TI 0 :: f a
  | Err e => [TI 1]
  | Panic => [TI 2]
  | OutOfFuel => [TI 3]
  end.

Definition t_attrs (l : attrs) : list tok :=
  TI (zlen l) :: flat_map (fun a => [TI (atype a); TB (aval a)]) l.

Definition t_opt (o : option bytes) : list tok :=
  match o with Some v => [TI 1; TB v] | None => [TI 0] end.

(* decoding of arguments: n types in [zs], n values in [bs] *)
Fixpoint take_attrs (n : nat) (zs : list Z) (bs : list bytes) : attrs * (list Z * list bytes) :=
  match n, zs, bs with
  | S n', z :: zs', b :: bs' =>
    let '(l, rest) := take_attrs n' zs' bs' in (mkavp z b :: l, rest)
  | _, _, _ => ([], (zs, bs))
  end.

Fixpoint take_ops (zs : list Z) (bs : list bytes) : list op :=
  match zs, bs with
  | c :: k :: zs', v :: bs' =>
    (if c =? 0 then OAdd k v else if c =? 1 then OSet k v else if c =? 2 then ODel k
     else if c =? 3 then OGet k else OLookup k)%Z :: take_ops zs' bs'
  | _, _ => []
  end.

Definition pkt_of (l : attrs) : packet := mkpacket 1 0 (repeat 0%N 16) [] l.

Definition t_after (l : attrs) : list tok :=
  t_attrs l ++ t_res (enc_len l) (fun n => [TI (Z.of_nat n)]) ++ t_res (marshal (pkt_of l)) (fun b => [TB b]).

Fixpoint m_trace (l : attrs) (os : list op) : list tok :=
  match os with
  | [] => []
  | o :: r =>
    match o with
    | OAdd k v => let l' := add k v l in t_after l' ++ m_trace l' r
    | OSet k v => match set k v l with Ok l' => t_after l' ++ m_trace l' r | _ => [TI (-99)] end
    | ODel k => match del k l with Ok l' => t_after l' ++ m_trace l' r | _ => [TI (-99)] end
    | OGet k => TB (get k l) :: t_after l ++ m_trace l r
    | OLookup k => t_opt (lookup k l) ++ t_after l ++ m_trace l r
    end
  end.

(* the same observables computed from the abstract multimap and the wire spec *)
Definition s_after (l : attrs) : list tok :=
  t_attrs l ++
  (if forallb (fun a => negb (in_range a) || (length (aval a) <=? 253)) l then
     let w := spec_wire l in
     [TI 0; TI (Z.of_nat (length w))] ++
     (if 20 + length w <=? 4096
      then [TI 0; TB ([1; 0] ++ be_enc 2 (N.of_nat (20 + length w)) ++ repeat 0 16 ++ w)%N]
      else [TI 1])
   else [TI 1; TI 1]).

Fixpoint s_trace (l : attrs) (os : list op) : list tok :=
  match os with
  | [] => []
  | o :: r =>
    let '(l', out) := spec_step l o in
    (match o, out with
     | OGet _, Some (Some v) => [TB v]
     | OGet _, _ => [TB []]
     | OLookup _, Some x => t_opt x
     | _, _ => []
     end) ++ s_after l' ++ s_trace l' r
  end.

Definition run_attrs (spec : bool) (bs : list bytes) (zs : list Z) : list tok :=
  match zs with
  | n :: zs' =>
    let '(l, (zs'', bs'')) := take_attrs (Z.to_nat n) zs' bs in
    let os := take_ops zs'' bs'' in
    if spec then s_trace l os else m_trace l os
  | [] => [TI (-98)]
  end.

(* ---- C01 / C03 ---- *)
Definition t_packet (p : packet) : list tok :=
  [TI (code p); TI (Z.of_N (ident p)); TB (auth p); TB (secret p)] ++ t_attrs (pattrs p).
Definition t_tuple (t : Z * N * bytes * bytes * attrs) : list tok :=
  let '(c, i, au, s, at_) := t in [TI c; TI (Z.of_N i); TB au; TB s] ++ t_attrs at_.

Definition arg_packet (bs : list bytes) (zs : list Z) : packet :=
  match zs, bs with
  | c :: i :: n :: zs', au :: sec :: bs' =>
    let '(l, _) := take_attrs (Z.to_nat n) zs' bs' in mkpacket c (Z.to_N i) au sec l
  | _, _ => mkpacket 0 0 [] [] []
  end.

Definition b1 (bs : list bytes) : bytes := nth 0 bs [].
Definition b2 (bs : list bytes) : bytes := nth 1 bs [].
Definition b3 (bs : list bytes) : bytes := nth 2 bs [].
Definition z1 (zs : list Z) : Z := nth 0 zs 0%Z.
Definition tbool (b : bool) : list tok := [TI (if b then 1 else 0)].

Definition dispatch_c01 (name : bytes) (bs : list bytes) (zs : list Z) : option (list tok) :=
  if name_is name "m.parse" then Some (t_res (parse (b1 bs) (b2 bs)) t_packet)
  else if name_is name "s.parse" then Some (t_res_s (spec_parse (b1 bs) (b2 bs)) t_tuple)
  else if name_is name "m.parse_attrs" then Some (t_res (parse_attrs (b1 bs)) t_attrs)
  else if name_is name "s.parse_attrs" then Some (t_res_s (spec_tlv_dec (b1 bs)) t_attrs)
  else if name_is name "m.marshal" then Some (t_res (marshal (arg_packet bs zs)) (fun b => [TB b]))
  else if name_is name "s.marshal" then
    let p := arg_packet bs zs in
    Some (t_res_s (spec_marshal (code p) (ident p) (auth p) (pattrs p)) (fun b => [TB b]))
  else if name_is name "m.encode" then Some (t_res (encode md5 (arg_packet bs zs)) (fun b => [TB b]))
  else if name_is name "s.encode" then
    let p := arg_packet bs zs in
    Some (t_res_s (spec_encode md5 (code p) (ident p) (auth p) (secret p) (pattrs p)) (fun b => [TB b]))
  else if name_is name "m.isresp" then Some (tbool (is_authentic_response md5 (b1 bs) (b2 bs) (b3 bs)))
  else if name_is name "s.isresp" then Some (tbool (spec_is_authentic_response md5 (b1 bs) (b2 bs) (b3 bs)))
  else if name_is name "m.isreq" then Some (tbool (is_authentic_request md5 (b1 bs) (b2 bs)))
  else if name_is name "s.isreq" then Some (tbool (spec_is_authentic_request md5 (b1 bs) (b2 bs)))
  else if name_is name "m.new" then Some (t_res (new_packet (z1 zs) (b1 bs) (b2 bs)) t_packet)
  else if name_is name "m.response" then Some (t_packet (response (arg_packet bs (skipn 1 zs)) (z1 zs)))
  else None.

(* ---- C04 / C11 ---- *)
Definition b4 (bs : list bytes) : bytes := nth 3 bs [].
Definition t_bytes (b : bytes) : list tok := [TB b].
Definition t_pair (p : bytes * bytes) : list tok := [TB (fst p); TB (snd p)].

Definition dispatch_pw (name : bytes) (bs : list bytes) (zs : list Z) : option (list tok) :=
  if name_is name "m.nup" then Some (t_res (new_user_password md5 (b1 bs) (b2 bs) (b3 bs)) t_bytes)
  else if name_is name "s.nup" then Some (t_res_s (spec_new_user_password md5 (b1 bs) (b2 bs) (b3 bs)) t_bytes)
  else if name_is name "m.up" then Some (t_res (user_password md5 (b1 bs) (b2 bs) (b3 bs)) t_bytes)
  else if name_is name "s.up" then Some (t_res_s (spec_user_password md5 (b1 bs) (b2 bs) (b3 bs)) t_bytes)
  else if name_is name "m.ntp" then Some (t_res (new_tunnel_password md5 (b1 bs) (b2 bs) (b3 bs) (b4 bs)) t_bytes)
  else if name_is name "s.ntp" then Some (t_res_s (spec_new_tunnel_password md5 (b1 bs) (b2 bs) (b3 bs) (b4 bs)) t_bytes)
  else if name_is name "m.tp" then Some (t_res (tunnel_password md5 (b1 bs) (b2 bs) (b3 bs)) t_pair)
  else if name_is name "s.tp" then Some (t_res_s (spec_tunnel_password md5 (b1 bs) (b2 bs) (b3 bs)) t_pair)
  else None.

(* ---- C10 ---- *)
Definition t_n (n : N) : list tok := [TI (Z.of_N n)].
Definition t_z (z : Z) : list tok := [TI z].
Definition t_nb (p : N * bytes) : list tok := [TI (Z.of_N (fst p)); TB (snd p)].
Definition zn (zs : list Z) : N := Z.to_N (z1 zs).

Definition dispatch_codec (name : bytes) (bs : list bytes) (zs : list Z) : option (list tok) :=
  if name_is name "m.integer" then Some (t_res (integer (b1 bs)) t_n)
  else if name_is name "s.integer" then Some (t_res_s (spec_dec_uint 4 (b1 bs)) t_n)
  else if name_is name "m.short" then Some (t_res (short (b1 bs)) t_n)
  else if name_is name "s.short" then Some (t_res_s (spec_dec_uint 2 (b1 bs)) t_n)
  else if name_is name "m.integer64" then Some (t_res (integer64 (b1 bs)) t_n)
  else if name_is name "s.integer64" then Some (t_res_s (spec_dec_uint 8 (b1 bs)) t_n)
  else if name_is name "m.new_integer" then Some [TB (new_integer (zn zs))]
  else if name_is name "s.new_integer" then Some [TB (spec_enc_uint 4 (zn zs))]
  else if name_is name "m.new_short" then Some [TB (new_short (zn zs))]
  else if name_is name "s.new_short" then Some [TB (spec_enc_uint 2 (zn zs))]
  else if name_is name "m.new_integer64" then Some [TB (new_integer64 (zn zs))]
  else if name_is name "s.new_integer64" then Some [TB (spec_enc_uint 8 (zn zs))]
  else if name_is name "m.new_string" then Some (t_res (new_string (b1 bs)) t_bytes)
  else if name_is name "s.new_string" then Some (t_res_s (spec_new_octets (b1 bs)) t_bytes)
  else if name_is name "m.new_bytes" then Some (t_res (new_bytes (b1 bs)) t_bytes)
  else if name_is name "s.new_bytes" then Some (t_res_s (spec_new_octets (b1 bs)) t_bytes)
  else if name_is name "m.ipaddr" then Some (t_res (ipaddr (b1 bs)) t_bytes)
  else if name_is name "s.ipaddr" then Some (t_res_s (spec_fixed 4 (b1 bs)) t_bytes)
  else if name_is name "m.new_ipaddr" then Some (t_res (new_ipaddr (b1 bs)) t_bytes)
  else if name_is name "s.new_ipaddr" then Some (t_res_s (spec_new_ipaddr (b1 bs)) t_bytes)
  else if name_is name "m.ipv6addr" then Some (t_res (ipv6addr (b1 bs)) t_bytes)
  else if name_is name "s.ipv6addr" then Some (t_res_s (spec_fixed 16 (b1 bs)) t_bytes)
  else if name_is name "m.new_ipv6addr" then Some (t_res (new_ipv6addr (b1 bs)) t_bytes)
  else if name_is name "s.new_ipv6addr" then Some (t_res_s (spec_new_ipv6addr (b1 bs)) t_bytes)
  else if name_is name "m.ifid" then Some (t_res (ifid (b1 bs)) t_bytes)
  else if name_is name "s.ifid" then Some (t_res_s (spec_fixed 8 (b1 bs)) t_bytes)
  else if name_is name "m.new_ifid" then Some (t_res (new_ifid (b1 bs)) t_bytes)
  else if name_is name "s.new_ifid" then Some (t_res_s (spec_fixed 8 (b1 bs)) t_bytes)
  else if name_is name "m.date" then Some (t_res (date (b1 bs)) t_z)
  else if name_is name "s.date" then Some (t_res_s (spec_date (b1 bs)) t_z)
  else if name_is name "m.new_date" then Some (t_res (new_date (z1 zs)) t_bytes)
  else if name_is name "s.new_date" then Some (t_res_s (spec_new_date (z1 zs)) t_bytes)
  else if name_is name "m.vsa" then Some (t_res (vendor_specific (b1 bs)) t_nb)
  else if name_is name "s.vsa" then Some (t_res_s (spec_vsa (b1 bs)) t_nb)
  else if name_is name "m.new_vsa" then Some (t_res (new_vendor_specific (zn zs) (b1 bs)) t_bytes)
  else if name_is name "s.new_vsa" then Some (t_res_s (spec_new_vsa (zn zs) (b1 bs)) t_bytes)
  else if name_is name "m.tlv" then Some (t_res (tlv_dec (b1 bs)) t_nb)
  else if name_is name "s.tlv" then Some (t_res_s (spec_tlv6929 (b1 bs)) t_nb)
  else if name_is name "m.new_tlv" then Some (t_res (new_tlv (zn zs) (b1 bs)) t_bytes)
  else if name_is name "s.new_tlv" then Some (t_res_s (spec_new_tlv (zn zs) (b1 bs)) t_bytes)
  else if name_is name "m.prefix" then Some (t_res (ipv6prefix (b1 bs)) t_pair)
  else if name_is name "s.prefix" then Some (t_res_s (spec_ipv6prefix (b1 bs)) t_pair)
  else if name_is name "m.new_prefix" then Some (t_res (new_ipv6prefix (b1 bs) (b2 bs)) t_bytes)
  else if name_is name "s.new_prefix" then Some (t_res_s (spec_new_ipv6prefix (b1 bs) (b2 bs)) t_bytes)
  else None.

(* ---- C05 ---- *)
Definition t_outcome (o : outcome) : list tok :=
  match o with
  | Returned p i => TI 0 :: t_packet p
  | Failed e i => [TI 1; TI (Z.of_N e)]
  | Waiting c => [TI 2]
  end.
Definition t_soutcome (o : soutcome) : list tok :=
  match o with
  | SReturned t i => TI 0 :: t_tuple t
  | SFailed e i => [TI 1; TI (Z.of_N e)]
  | SWaiting c => [TI 2]
  end.
Definition dispatch_client (name : bytes) (bs : list bytes) (zs : list Z) : option (list tok) :=
  if name_is name "m.client" then
    Some (t_outcome (exchange_recv md5 (z1 zs) (nth 1 zs 0 =? 1)%Z (b1 bs) (b2 bs) (skipn 2 bs)))
  else if name_is name "s.client" then
    Some (t_soutcome (spec_exchange_recv md5 (z1 zs) (nth 1 zs 0 =? 1)%Z (b1 bs) (b2 bs) (skipn 2 bs)))
  else None.

(* ---- C07 ---- *)
Fixpoint take_hacts (zs : list Z) : list hact :=
  match zs with
  | k :: a :: b :: r =>
    (if k =? 0 then HServe (Z.to_nat a) else if k =? 1 then HRelease (Z.to_nat a)
     else if k =? 2 then HDeliver (Z.to_nat a) (b =? 1) else if k =? 3 then HHandlerDone (Z.to_nat a)
     else if k =? 4 then HShutdown else if k =? 5 then HWait (Z.to_nat a) else HExpire (Z.to_nat a))%Z
    :: take_hacts r
  | _ => []
  end.
Definition dispatch_sched (name : bytes) (bs : list bytes) (zs : list Z) : option (list tok) :=
  if name_is name "m.sched" then
    Some (flat_map (fun l => TI (-1) :: map TI l) (run_hacts false Model.Shutdown.init (take_hacts zs)))
  else if name_is name "m.sched_legacy" then
    Some (flat_map (fun l => TI (-1) :: map TI l) (run_hacts true Model.Shutdown.init (take_hacts zs)))
  else None.

(* ---- C06 ---- *)
(* zs = skip :: npeers :: err flags (npeers) ++ events (kind, a); bs = secrets (npeers) ++ datagrams of the DArrive events *)
Fixpoint take_devents (zs : list Z) (bs : list bytes) : list devent :=
  match zs with
  | k :: a :: r =>
    if (k =? 0)%Z then
      match bs with d :: bs' => DArrive (Z.to_N a) d :: take_devents r bs' | [] => [] end
    else (if (k =? 1)%Z then DReturn (Z.to_nat a) else DClean (Z.to_nat a)) :: take_devents r bs
  | _ => []
  end.
Definition t_dout (o : dout) : list tok :=
  match o with
  | ODropped => [TI 0]
  | ODispatched r => TI 1 :: TI (Z.of_N (r_remote r)) :: t_packet (r_packet r)
  | ONone => [TI 2]
  end.
Definition dispatch_c06 (name : bytes) (bs : list bytes) (zs : list Z) : option (list tok) :=
  if name_is name "s.dispatch" then
    match zs with
    | sk :: np :: r =>
      let n := Z.to_nat np in
      let errs := firstn n r in
      let secs := firstn n bs in
      let so := fun a : N => if (nth (N.to_nat a) errs 1 =? 1)%Z then SecErr else Sec (nth (N.to_nat a) secs []) in
      let '(s, outs) := spec_drun md5 (sk =? 1)%Z so dinit (take_devents (skipn n r) (skipn n bs)) in
      Some (flat_map t_dout outs ++ [TI (zlen (inflight s))])
    | _ => Some [TI (-96)]
    end
  else if name_is name "m.dispatch" then
    match zs with
    | sk :: np :: r =>
      let n := Z.to_nat np in
      let errs := firstn n r in
      let secs := firstn n bs in
      let so := fun a : N => if (nth (N.to_nat a) errs 1 =? 1)%Z then SecErr else Sec (nth (N.to_nat a) secs []) in
      let '(s, outs) := drun md5 (sk =? 1)%Z so dinit (take_devents (skipn n r) (skipn n bs)) in
      Some (flat_map t_dout outs ++ [TI (zlen (inflight s))])
    | _ => Some [TI (-96)]
    end
  else if name_is name "m.reply" then
    (* bs = [datagram; secret; extra attribute value], zs = [code; from] *)
    match parse (b1 bs) (b2 bs) with
    | Ok p => Some (t_res (response_write md5 (mkreq p (Z.to_N (nth 1 zs 0%Z)))
                             (mkpacket (z1 zs) (ident p) (auth p) (secret p) [mkavp 18 (b3 bs)]))
                          (fun x => [TI (Z.of_N (fst x)); TB (snd x)]))
    | _ => Some [TI (-95)]
    end
  else None.

(* ---- C08 ---- *)
(* zs = retry :: max :: skip :: nev :: event kinds (nev) ++ packet ints ; bs = datagrams of XDatagram events ++ packet byte args *)
Fixpoint take_xevents (ks : list Z) (bs : list bytes) : list xevent * list bytes :=
  match ks with
  | [] => ([], bs)
  | k :: r =>
    if (k =? 2)%Z then
      match bs with
      | d :: bs' => let '(es, rest) := take_xevents r bs' in (XDatagram d :: es, rest)
      | [] => ([], [])
      end
    else
      let '(es, rest) := take_xevents r bs in
      ((if k =? 0 then XStep else if k =? 1 then XDialFail else if k =? 3 then XReadErr
        else if k =? 4 then XTick else if k =? 5 then XCtxDone else XHelper)%Z :: es, rest)
  end.
Definition dispatch_c08 (name : bytes) (bs : list bytes) (zs : list Z) : option (list tok) :=
  if name_is name "m.exchange" then
    match zs with
    | rt :: mx :: sk :: nev :: r =>
      let n := Z.to_nat nev in
      let '(es, pbs) := take_xevents (firstn n r) bs in
      let rq := arg_packet pbs (skipn n r) in
      let s := xrun md5 rt mx (sk =? 1)%Z rq xinit es in
      Some ((match xmain s with
             | M_returned (XPacket p) => TI 0 :: t_packet p
             | M_returned (XErr e) => [TI 1; TI (Z.of_N e)]
             | M_returned XCtxErr => [TI 2]
             | M_returned XNetErr => [TI 3]
             | _ => [TI 9]
             end) ++ [TI (zlen (sent s)); TI (if conn_closed s then 1 else 0)])
    | _ => Some [TI (-94)]
    end
  else None.

(* ---- C15 / C16 / C20 ---- *)
Definition t_optz (o : option Z) : list tok := match o with Some v => [TI 1; TI v] | None => [TI 0] end.
Definition t_attr (a : attr) : list tok :=
  [TB (a_name a); TI (zlen (a_oid a))] ++ map TI (a_oid a) ++ [TI (a_type a)] ++ t_optz (a_size a) ++ t_optz (a_encrypt a)
  ++ tbool (a_has_tag a) ++ tbool (a_concat a).
Definition t_value (v : value) : list tok := [TB (v_attr v); TB (v_name v); TI (v_number v)].
Definition t_vendor (v : vendor) : list tok :=
  [TB (vn_name v); TI (vn_number v)] ++ (match vn_format v with Some (t, l) => [TI 1; TI t; TI l] | None => [TI 0] end)
  ++ [TI (zlen (vn_attrs v))] ++ flat_map t_attr (vn_attrs v) ++ [TI (zlen (vn_values v))] ++ flat_map t_value (vn_values v).
Definition t_dict (d : dict) : list tok :=
  [TI (zlen (d_attrs d))] ++ flat_map t_attr (d_attrs d) ++ [TI (zlen (d_values d))] ++ flat_map t_value (d_values d)
  ++ [TI (zlen (d_vendors d))] ++ flat_map t_vendor (d_vendors d).
Definition t_pres (r : pres dict) : list tok :=
  match r with
  | POk d => TI 0 :: t_dict d
  | PFail (ParseErr c f l) => [TI 1; TI (Z.of_N c); TB f; TI (Z.of_nat l)]
  | PFail (PlainErr c) => [TI 2; TI (Z.of_N c)]
  | PFuel => [TI 3]
  end.
Definition t_trace (tr : list ioev) : list tok :=
  TI (zlen tr) :: flat_map (fun e => match e with EvOpen n => [TI 0; TB n] | EvClose n => [TI 1; TB n] | EvReclose n => [TI 2; TB n] end) tr.

(* bs = root name :: root text :: (requested name, canonical name, text)* ; zs = [ignore_identical; fuel] *)
Fixpoint opener_of (bs : list bytes) (n : bytes) : option (bytes * bytes) :=
  match bs with
  | rq :: cn :: tx :: r => if beq rq n then Some (cn, tx) else opener_of r n
  | _ => None
  end.
Definition dispatch_dict (name : bytes) (bs : list bytes) (zs : list Z) : option (list tok) :=
  if name_is name "m.dictparse" then
    let '(r, tr) := parse_root (z1 zs =? 1)%Z (opener_of (skipn 2 bs)) (Z.to_nat (nth 1 zs 0%Z)) (b1 bs) (b2 bs) in
    Some (t_pres r ++ t_trace tr)
  else if name_is name "m.fields" then Some (flat_map (fun f => [TB f]) (fields (b1 bs)))
  else if name_is name "m.lines" then Some (flat_map (fun f => [TB f]) (scan_lines (b1 bs)))
  else None.

(* ---- C20 ---- *)
Fixpoint load_all (h : heap) (texts : list bytes) : option (heap * list pdict) :=
  match texts with
  | [] => Some (h, [])
  | t :: r =>
    match fst (parse_root false (fun _ => None) 3 [100%N] t) with
    | POk d => let '(h1, pd) := load h d in
               match load_all h1 r with Some (h2, ps) => Some (h2, pd :: ps) | None => None end
    | _ => None
    end
  end.
Fixpoint chain (legacy : bool) (h : heap) (acc : pdict) (ds : list pdict) : res (heap * pdict) :=
  match ds with
  | [] => Ok (h, acc)
  | d :: r => match merge legacy h acc d with
              | Ok (h', acc') => chain legacy h' acc' r
              | Err e => Err e | Panic => Panic | OutOfFuel => OutOfFuel
              end
  end.
Definition dispatch_merge (name : bytes) (bs : list bytes) (zs : list Z) : option (list tok) :=
  if name_is name "m.merge" || name_is name "s.merge" then
    match load_all [] bs with
    | Some (h, d :: ds) =>
      match chain false h d ds with
      | Ok (h', r) => Some (TI 0 :: t_dict (view h' r) ++ flat_map (fun x => t_dict (view h' x)) (d :: ds))
      | Err e => Some [TI 1]
      | _ => Some [TI 2]
      end
    | _ => Some [TI (-93)]
    end
  else None.

(* ---- C19 ---- *)
Definition b5 (bs : list bytes) : bytes := nth 4 bs [].
Definition dispatch_mschap (name : bytes) (bs : list bytes) (zs : list Z) : option (list tok) :=
  if name_is name "m.ntresp" then Some [TB (generate_nt_response sha1 md4 utf8_to_utf16le des_encrypt (b1 bs) (b2 bs) (b3 bs) (b4 bs))]
  else if name_is name "s.ntresp" then Some [TB (rfc_generate_nt_response sha1 md4 utf8_to_utf16le des_encrypt (b1 bs) (b2 bs) (b3 bs) (b4 bs))]
  else if name_is name "m.authresp" then Some [TB (generate_authenticator_response sha1 md4 utf8_to_utf16le (b1 bs) (b2 bs) (b3 bs) (b4 bs) (b5 bs))]
  else if name_is name "s.authresp" then Some [TB (rfc_generate_authenticator_response sha1 md4 utf8_to_utf16le (b1 bs) (b2 bs) (b3 bs) (b4 bs) (b5 bs))]
  else if name_is name "m.chash" then Some [TB (challenge_hash sha1 (b1 bs) (b2 bs) (b3 bs))]
  else if name_is name "s.chash" then Some [TB (rfc_challenge_hash sha1 (b1 bs) (b2 bs) (b3 bs))]
  else if name_is name "m.nthash" then Some [TB (nt_password_hash md4 (b1 bs))]
  else if name_is name "s.nthash" then Some [TB (rfc_nt_password_hash md4 (b1 bs))]
  else if name_is name "m.utf16" || name_is name "s.utf16" then Some [TB (utf8_to_utf16le (b1 bs))]
  else if name_is name "m.descrypt7" then Some [TB (Model.MSCHAP.des_crypt des_encrypt (b1 bs) (b2 bs))]
  else if name_is name "s.descrypt7" then Some [TB (rfc_des_encrypt des_encrypt (b2 bs) (b1 bs))]
  else if name_is name "m.masterkey" then Some [TB (get_master_key sha1 (b1 bs) (b2 bs))]
  else if name_is name "s.masterkey" then Some [TB (rfc_get_master_key sha1 (b1 bs) (b2 bs))]
  else if name_is name "m.startkey" then Some (t_res (get_asymmetric_start_key sha1 (b1 bs) (Z.to_nat (z1 zs)) (nth 1 zs 0 =? 1)%Z) t_bytes)
  else if name_is name "s.startkey" then Some (t_res_s (spec_get_asymmetric_start_key sha1 (b1 bs) (Z.to_nat (z1 zs)) (nth 1 zs 0 =? 1)%Z) t_bytes)
  else if name_is name "m.makekey" then Some (t_res (make_key sha1 md4 utf8_to_utf16le (b1 bs) (b2 bs) (z1 zs =? 1)%Z) t_bytes)
  else if name_is name "s.makekey" then Some (t_res_s (spec_make_key sha1 md4 utf8_to_utf16le (b1 bs) (b2 bs) (z1 zs =? 1)%Z) t_bytes)
  else None.

(* ---- C12 / C13 / C14 ---- *)
Definition kind_of (k nb : Z) : hkind :=
  if (k =? 0)%Z then KBytes else if (k =? 1)%Z then KConcat else if (k =? 2)%Z then KIP4 else if (k =? 3)%Z then KIP6
  else if (k =? 4)%Z then KIFID else if (k =? 5)%Z then KPrefix else if (k =? 6)%Z then KDate
  else if (k =? 7)%Z then KInt (Z.to_nat nb) else KByte.
Definition t_gv (d : hdesc) (v : gv) : list tok :=
  match h_kind d with
  | KInt _ | KDate | KByte => [TI (g_u v)]
  | KPrefix => [TB (g_b v); TB (g_mask v)]
  | _ => [TB (g_b v)]
  end.
Definition t_tv (d : hdesc) (x : N * gv) : list tok := TI (Z.of_N (fst x)) :: t_gv d (snd x).

(* ops: zs triples (opcode, tag, u); bs triples (value, mask, salt) *)
Fixpoint run_hops (d : hdesc) (p q : packet) (zs : list Z) (bs : list bytes) : list tok :=
  match zs, bs with
  | o :: tag :: u :: zs', vb :: mk :: salt :: bs' =>
    let v := mkgv vb u mk in
    if (o =? 0)%Z then
      match h_add md5 d p salt (Z.to_N tag) v with
      | Ok p' => TI 0 :: t_attrs (pattrs p') ++ run_hops d p' q zs' bs'
      | Err _ => TI 1 :: t_attrs (pattrs p) ++ run_hops d p q zs' bs'
      | _ => [TI 2]
      end
    else if (o =? 1)%Z then
      match h_set md5 d p salt (Z.to_N tag) v with
      | Ok p' => TI 0 :: t_attrs (pattrs p') ++ run_hops d p' q zs' bs'
      | Err _ => TI 1 :: t_attrs (pattrs p) ++ run_hops d p q zs' bs'
      | _ => [TI 2]
      end
    else if (o =? 2)%Z then
      match h_del d p with
      | Ok p' => TI 0 :: t_attrs (pattrs p') ++ run_hops d p' q zs' bs'
      | _ => [TI 2]
      end
    else if (o =? 3)%Z then
      (match h_lookup md5 d p q with
       | Ok x => TI 0 :: t_tv d x
       | Err e => [TI 1; TI (if (e =? E_noattr)%N then 40 else 8)]
       | _ => [TI 2]
       end) ++ run_hops d p q zs' bs'
    else
      (match h_gets md5 d p q with
       | Ok xs => TI 0 :: TI (zlen xs) :: flat_map (t_tv d) xs
       | Err _ => [TI 1]
       | _ => [TI 2]
       end) ++ run_hops d p q zs' bs'
  | _, _ => []
  end.

Definition dispatch_helper (name : bytes) (bs : list bytes) (zs : list Z) : option (list tok) :=
  if name_is name "m.helper" || name_is name "s.helper" then
    match zs, bs with
    | ht :: k :: nb :: tg :: enc :: sv :: sz :: vv :: vid :: c :: idn :: n :: zs', au :: sec :: qau :: bs' =>
      let d := mkhdesc ht (kind_of k nb) (tg =? 1)%Z enc (if (sv =? 1)%Z then Some sz else None)
                       (if (vv =? 1)%Z then Some (Z.to_N vid) else None) in
      let '(l, (zs'', bs'')) := take_attrs (Z.to_nat n) zs' bs' in
      let p := mkpacket c (Z.to_N idn) au sec l in
      let q := mkpacket 1 (Z.to_N idn) qau sec [] in
      Some (run_hops d p q zs'' bs'')
    | _, _ => Some [TI (-92)]
    end
  else None.

(* ---- C13: the readers on the memory model ----
   script codes: 0 Lookup, 1 Gets, 2 overwrite every byte of the values returned last *)
Definition scribble (h : Mem.heap) (s : Mem.slice) : Mem.heap :=
  fold_left (fun hh i => wr hh s i (N.lxor (nth i (rd hh s) 0%N) 165)) (seq 0 (s_len s)) h.
Definition scribble_val (h : Mem.heap) (v : mval) : Mem.heap := scribble (scribble h (v_b v)) (v_mask v).
Fixpoint run_mem (legacy : bool) (d : hdesc) (h : Mem.heap) (m : mpacket) (q : packet) (last : list mval) (script : list Z) : list tok :=
  match script with
  | [] => []
  | o :: rest =>
    if (o =? 0)%Z then
      let '(h', r) := m_lookup md5 legacy d h m q in
      (match r with
       | Ok v => TI 0 :: t_tv d (val_view h' v)
       | Err e => [TI 1; TI (if (e =? E_noattr)%N then 40 else 8)]
       | _ => [TI 2]
       end) ++ t_attrs (pattrs (pview h' m)) ++ run_mem legacy d h' m q (match r with Ok v => [v] | _ => [] end) rest
    else if (o =? 1)%Z then
      let '(h', r) := m_gets md5 legacy d h m q in
      (match r with
       | Ok vs => TI 0 :: TI (zlen vs) :: flat_map (fun v => t_tv d (val_view h' v)) vs
       | Err _ => [TI 1]
       | _ => [TI 2]
       end) ++ t_attrs (pattrs (pview h' m)) ++ run_mem legacy d h' m q (match r with Ok vs => vs | _ => [] end) rest
    else
      let h' := fold_left scribble_val last h in
      TI 9 :: t_attrs (pattrs (pview h' m)) ++ run_mem legacy d h' m q [] rest
  end.

Fixpoint place (vals : list bytes) (types : list Z) (addr : nat) : list (Z * Mem.slice) :=
  match vals, types with
  | v :: vs, t :: ts => (t, mkslice addr 0 (length v)) :: place vs ts (S addr)
  | _, _ => []
  end.

Definition dispatch_mem (name : bytes) (bs : list bytes) (zs : list Z) : option (list tok) :=
  if name_is name "m.mem" || name_is name "s.mem" then
    match zs, bs with
    | ht :: k :: nb :: tg :: enc :: sv :: sz :: vv :: vid :: lg :: c :: idn :: n :: zs', au :: sec :: qau :: bs' =>
      let d := mkhdesc ht (kind_of k nb) (tg =? 1)%Z enc (if (sv =? 1)%Z then Some sz else None)
                       (if (vv =? 1)%Z then Some (Z.to_N vid) else None) in
      let nn := Z.to_nat n in
      let vals := firstn nn bs' in
      let types := firstn nn zs' in
      let h : Mem.heap := sec :: vals in
      let m := mkmp c (Z.to_N idn) au (mkslice 0 0 (length sec)) (place vals types 1) in
      let q := mkpacket 1 (Z.to_N idn) qau sec [] in
      Some (run_mem (lg =? 1)%Z d h m q [] (skipn nn zs'))
    | _, _ => Some [TI (-93)]
    end
  else None.

(* ---- C17: the generator's decision layer ---- *)
Definition zopt (z : Z) : option Z := if (z <? 0)%Z then None else Some z.
Definition bopt (z : Z) : option bool := if (z <? 0)%Z then None else Some (z =? 1)%Z.
Fixpoint take_gattrs (n : nat) (zs : list Z) (bs : list bytes) : list gattr * (list Z * list bytes) :=
  match n with
  | O => ([], (zs, bs))
  | S n' =>
    match zs, bs with
    | ol :: zs1, nm :: idn :: bs1 =>
      let k := Z.to_nat ol in
      match skipn k zs1 with
      | ty :: sz :: en :: tg :: cc :: zs2 =>
        let '(r, rest) := take_gattrs n' zs2 bs1 in
        (mkgattr nm idn (firstn k zs1) ty (zopt sz) (zopt en) (bopt tg) (bopt cc) :: r, rest)
      | _ => ([], (zs, bs))
      end
    | _, _ => ([], (zs, bs))
    end
  end.
Fixpoint take_gvals (n : nat) (zs : list Z) (bs : list bytes) : list gvalue * (list Z * list bytes) :=
  match n with
  | O => ([], (zs, bs))
  | S n' =>
    match zs, bs with
    | num :: zs1, at_ :: nm :: idn :: bs1 =>
      let '(r, rest) := take_gvals n' zs1 bs1 in (mkgvalue at_ nm idn num :: r, rest)
    | _, _ => ([], (zs, bs))
    end
  end.
Fixpoint take_gvendors (n : nat) (zs : list Z) (bs : list bytes) : list gvendor :=
  match n with
  | O => []
  | S n' =>
    match zs, bs with
    | num :: tl_ :: ll :: na :: nv :: zs1, nm :: idn :: bs1 =>
      let '(attrs, (zs2, bs2)) := take_gattrs (Z.to_nat na) zs1 bs1 in
      let '(vals, (zs3, bs3)) := take_gvals (Z.to_nat nv) zs2 bs2 in
      mkgvendor nm idn num tl_ ll attrs vals :: take_gvendors n' zs3 bs3
    | _, _ => []
    end
  end.
Fixpoint take_pairs (n : nat) (bs : list bytes) : list (bytes * bytes) * list bytes :=
  match n with
  | O => ([], bs)
  | S n' => match bs with a :: b :: r => let '(ps, rest) := take_pairs n' r in ((a, b) :: ps, rest) | _ => ([], bs) end
  end.

Definition fcode (f : fname) : Z :=
  match f with FAdd => 0 | FAddString => 1 | FGet => 2 | FGetString => 3 | FGets => 4 | FGetStrings => 5
             | FLookup => 6 | FLookupString => 7 | FSet => 8 | FSetString => 9 | FDel => 10 end.
Definition vcode (v : vtype) : Z :=
  match v with VBytes => 0 | VString => 1 | VIP => 2 | VHW => 3 | VNet => 4 | VTime => 5 | VNamed => 6 | VByte => 7 end.
Definition zb (b : bool) : Z := if b then 1 else 0.
Definition t_gdecl (d : gdecl) : list tok :=
  match d with
  | DTypeConst i n => [TI 1; TB i; TI n]
  | DVendorConst i n => [TI 2; TB i; TI n]
  | DExtInit i vs => TI 3 :: TI (zlen vs) :: flat_map (fun v => [TB i; TB (fst v); TI (snd v)]) vs
  | DIntType i b => [TI 4; TB i; TI b]
  | DValueConst i v n => [TI 5; TB i; TB v; TI n]
  | DStrings i => [TI 6; TB i]
  | DStringer i => [TI 7; TB i]
  | DFunc i FDel _ _ _ => [TI 8; TB i; TI 10; TI 0; TI 0; TI 0]
  | DFunc i f tg q vt => [TI 8; TB i; TI (fcode f); TI (zb tg); TI (zb q); TI (vcode vt)]
  | DVendorFunc i w => [TI 9; TB i; TI w]
  end.

Definition dispatch_gen (name : bytes) (bs : list bytes) (zs : list Z) : option (list tok) :=
  if name_is name "m.gen" || name_is name "s.gen" then
    match zs with
    | ni :: ne :: na :: nv :: nn :: zs0 =>
      let ign := firstn (Z.to_nat ni) bs in
      let '(ext, bs1) := take_pairs (Z.to_nat ne) (skipn (Z.to_nat ni) bs) in
      let '(attrs, (zs1, bs2)) := take_gattrs (Z.to_nat na) zs0 bs1 in
      let '(vals, (zs2, bs3)) := take_gvals (Z.to_nat nv) zs1 bs2 in
      let vendors := take_gvendors (Z.to_nat nn) zs2 bs3 in
      match gen (mkgopts ign ext) (mkgdict attrs vals vendors) with
      | Ok ds => Some (TI 0 :: flat_map t_gdecl ds)
      | Err e => Some [TI (-1); TI (Z.of_N e)]
      | _ => Some [TI (-2)]
      end
    | _ => Some [TI (-94)]
    end
  else None.


(* ---- the translated source, interpreted (Extract/SrcDriver.v) ---- *)
Definition dispatch_src (name : bytes) (bs : list bytes) (zs : list Z) : option (list tok) :=
  match SrcDriver.dispatch_src_raw name bs zs with
  | Some l => Some (map (fun t => match t with inl z => TI z | inr b => TB b end) l)
  | None => None
  end.

Definition dispatch (name : bytes) (bs : list bytes) (zs : list Z) : list tok :=
  if name_is name "m.attrs_run" then run_attrs false bs zs
  else if name_is name "s.attrs_run" then run_attrs true bs zs
  else if name_is name "md5" then match bs with b :: _ => [TB (md5 b)] | [] => [] end
  else match dispatch_c01 name bs zs with Some t => t | None =>
  match dispatch_pw name bs zs with Some t => t | None =>
  match dispatch_codec name bs zs with Some t => t | None =>
  match dispatch_client name bs zs with Some t => t | None =>
  match dispatch_sched name bs zs with Some t => t | None =>
  match dispatch_c06 name bs zs with Some t => t | None =>
  match dispatch_c08 name bs zs with Some t => t | None =>
  match dispatch_dict name bs zs with Some t => t | None =>
  match dispatch_merge name bs zs with Some t => t | None =>
  match dispatch_mschap name bs zs with Some t => t | None =>
  match dispatch_helper name bs zs with Some t => t | None =>
  match dispatch_mem name bs zs with Some t => t | None =>
  match dispatch_gen name bs zs with Some t => t | None =>
  match dispatch_src name bs zs with Some t => t | None =>
  [TI (-97)] end end end end end end end end end end end end end end.

Require Extraction.
Require Import ExtrOcamlBasic.
Extraction Language OCaml.
Extraction "driver_model.ml" dispatch.
