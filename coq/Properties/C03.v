(* Properties/C03.v — Authenticators are generated and verified exactly per
   RFC 2865/2866/5176.  Every theorem holds for every hash function H with
   16-byte output; Crypto/MD5.v satisfies that hypothesis (md5_length). *)
From Radius Require Import Base.Bytes Base.Res Model.Attrs Model.Packet Spec.C03 Proofs.Auth Crypto.MD5.
Open Scope nat_scope.

Section S.
Variable H : bytes -> bytes.
Hypothesis H_len : forall x, length (H x) = 16.

Theorem C03_encode_reply : forall p w, marshal p = Ok w -> In (code p) rfc_reply_codes ->
  encode H p = Ok (put_auth w (H (covered w (auth p) (secret p)))).
Proof. exact (encode_reply H). Qed.
Theorem C03_encode_hashed_request : forall p w, marshal p = Ok w -> In (code p) rfc_hashed_request_codes ->
  encode H p = Ok (put_auth w (H (covered w zero16 (secret p)))).
Proof. exact (encode_hashed_request H). Qed.
Theorem C03_encode_verbatim : forall p w, marshal p = Ok w -> In (code p) rfc_verbatim_codes -> encode H p = Ok w.
Proof. exact (encode_verbatim H). Qed.
Theorem C03_encode_unknown_code_refused : forall p,
  ~ In (code p) rfc_verbatim_codes -> ~ In (code p) rfc_reply_codes ->
  ~ In (code p) rfc_hashed_request_codes -> exists e, encode H p = Err e.
Proof. exact (encode_unknown_code_refused H). Qed.
(* where the hash lands: bytes 4..20, everything else as marshalled *)
Theorem C03_put_auth_layout : forall w h, 20 <= length w -> length h = 16 ->
  auth_field (put_auth w h) = h /\ firstn 4 (put_auth w h) = firstn 4 w /\
  skipn 20 (put_auth w h) = skipn 20 w /\ length (put_auth w h) = length w.
Proof.
  intros w h Hw Hh. repeat split;
    [apply put_auth_field | apply put_auth_firstn4 | apply put_auth_skipn20 | apply put_auth_length]; assumption.
Qed.

Theorem C03_is_authentic_response_iff : forall r q sec,
  is_authentic_response H r q sec = true <-> spec_response_authentic H r q sec.
Proof. exact (is_authentic_response_iff H). Qed.
Theorem C03_is_authentic_request_iff : forall q sec,
  is_authentic_request H q sec = true <-> spec_request_authentic H q sec.
Proof. exact (is_authentic_request_iff H). Qed.
Theorem C03_short_or_empty_secret_never_authentic : forall r q sec,
  (length r < 20 \/ length q < 20 \/ sec = [] -> is_authentic_response H r q sec = false) /\
  (length q < 20 \/ sec = [] -> is_authentic_request H q sec = false).
Proof.
  intros; split; [apply short_or_empty_secret_never_authentic | apply request_short_or_empty_secret_never_authentic].
Qed.

Theorem C03_encode_then_verify : forall p w q,
  length (auth p) = 16 -> In (code p) rfc_reply_codes -> secret p <> [] ->
  20 <= length q -> auth_field q = auth p ->
  encode H p = Ok w -> is_authentic_response H w q (secret p) = true.
Proof. exact (encode_then_verify H H_len). Qed.
Theorem C03_encode_request_then_verify : forall p w,
  length (auth p) = 16 -> (0 <= code p <= 255)%Z ->
  In (code p) rfc_hashed_request_codes \/ In (code p) rfc_verbatim_codes ->
  secret p <> [] -> encode H p = Ok w -> is_authentic_request H w (secret p) = true.
Proof. exact (encode_request_then_verify H H_len). Qed.

Theorem C03_tamper_needs_collision : forall r q sec r' q' sec',
  is_authentic_response H r q sec = true -> is_authentic_response H r' q' sec' = true ->
  auth_field r = auth_field r' ->
  covered r (auth_field q) sec <> covered r' (auth_field q') sec' ->
  exists x y, x <> y /\ H x = H y.
Proof. exact (tamper_needs_collision H). Qed.
Theorem C03_tamper_request_needs_collision : forall q sec q' sec' c rest c' rest',
  q = c :: rest -> q' = c' :: rest' ->
  In (Z.of_N c) rfc_hashed_request_codes -> In (Z.of_N c') rfc_hashed_request_codes ->
  is_authentic_request H q sec = true -> is_authentic_request H q' sec' = true ->
  auth_field q = auth_field q' -> covered q zero16 sec <> covered q' zero16 sec' ->
  exists x y, x <> y /\ H x = H y.
Proof. exact (tamper_request_needs_collision H). Qed.
End S.

Theorem C03_new_layout : forall c sec i a, length a = 16 ->
  new_packet c sec (i :: a) = Ok (mkpacket c i a sec []).
Proof. exact new_layout. Qed.
Theorem C03_response_copies : forall p c,
  code (response p c) = c /\ ident (response p c) = ident p /\ auth (response p c) = auth p /\
  secret (response p c) = secret p /\ pattrs (response p c) = [].
Proof. exact response_copies. Qed.

(* the executable MD5 meets the hypothesis, so every theorem above applies to it *)
Theorem C03_md5_instance : forall x, length (md5 x) = 16.
Proof. exact md5_length. Qed.

(* non-vacuity: a real Access-Accept for a real request verifies with MD5, a flipped bit does not *)
Example C03_example :
  let q := [1; 9; 0; 20]%N ++ repeat 5%N 16 in
  let p := mkpacket 2 9 (repeat 5%N 16) [115; 51]%N [mkavp 18 [104; 105]%N] in
  match encode md5 p with
  | Ok w => is_authentic_response md5 w q [115; 51]%N = true /\
            is_authentic_response md5 (firstn 21 w ++ [200%N] ++ skipn 22 w) q [115; 51]%N = false /\
            is_authentic_response md5 w q [115; 52]%N = false
  | _ => False
  end.
Proof. vm_compute. repeat split. Qed.

Print Assumptions C03_encode_reply.
Print Assumptions C03_encode_hashed_request.
Print Assumptions C03_encode_verbatim.
Print Assumptions C03_encode_unknown_code_refused.
Print Assumptions C03_put_auth_layout.
Print Assumptions C03_is_authentic_response_iff.
Print Assumptions C03_is_authentic_request_iff.
Print Assumptions C03_short_or_empty_secret_never_authentic.
Print Assumptions C03_encode_then_verify.
Print Assumptions C03_encode_request_then_verify.
Print Assumptions C03_tamper_needs_collision.
Print Assumptions C03_tamper_request_needs_collision.
Print Assumptions C03_new_layout.
Print Assumptions C03_response_copies.
Print Assumptions C03_md5_instance.

From Radius Require Import Proofs.Oracles.
Theorem C03_oracles : forall H p r q sec,
  encode H p = spec_encode H (code p) (ident p) (auth p) (secret p) (pattrs p) /\
  is_authentic_response H r q sec = spec_is_authentic_response H r q sec /\
  is_authentic_request H q sec = spec_is_authentic_request H q sec.
Proof.
  intros; repeat split;
    [apply encode_eq_spec | apply is_authentic_response_eq_spec | apply is_authentic_request_eq_spec].
Qed.
Print Assumptions C03_oracles.
