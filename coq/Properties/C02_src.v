(* Properties/C02_src.v — Parse and ParseAttributes as written neither panic nor loop on any byte string.
   Statements about the translation of the Go source itself (Gen/Src.v, regenerated from
   /repo on every run by srcfacts/golite.go) under the interpreter of Base/GoLite.v.  [fn t] is the
   translated function, or a function that panics at once when the translator refused it. *)
From Coq Require Import String.
From Radius Require Import Base.Bytes Base.Res Base.GoLite Gen.Src Model.SrcRun Proofs.SrcBase Proofs.SrcCtx Model.Attrs Spec.C01 Proofs.SrcDefs Proofs.SrcParse.
Open Scope list_scope.
Open Scope nat_scope.

Theorem C02_program_Parse_total : forall fuel b secret,
  bytes_ok b -> length b < fuel ->
  exists v, src_run "Parse" fuel [VBytes b; secret] = Some (Some v).
Proof. exact program_Parse_total. Qed.
Print Assumptions C02_program_Parse_total.

Theorem C02_program_ParseAttributes_total : forall fuel b,
  bytes_ok b -> length b < fuel ->
  exists v, src_run "ParseAttributes" fuel [VBytes b] = Some (Some v).
Proof. exact program_ParseAttributes_total. Qed.
Print Assumptions C02_program_ParseAttributes_total.

(* non-vacuity: garbage and a truncated datagram are answered with an error, not a panic *)
Example C02_src_example :
  src_run "Parse" 100 [VBytes [1; 2; 3]%N; VNil] = Some (Some (VTup [VNil; VErr])) /\
  src_run "Parse" 100 [VBytes ([1; 7; 0; 25]%N ++ repeat 9%N 16 ++ [1; 200; 1; 2; 3]%N); VNil] = Some (Some (VTup [VNil; VErr])) /\
  src_run "ParseAttributes" 100 [VBytes [1; 1]%N] = Some (Some (VTup [VNil; VErr])).
Proof. repeat split; vm_compute; reflexivity. Qed.
