(* Properties/C06.v — Server dispatches exactly the authentic, non-duplicate
   requests and answers them.  Events are the lock steps and handler returns of
   the per-datagram goroutines of one Serve call, in any order (the steps before
   the lock are goroutine-local, so the lock step is the linearisation point). *)
From Radius Require Import Base.Bytes Base.Res Model.Attrs Model.Packet Model.Dispatch
  Spec.C03 Proofs.Dispatch Proofs.DispatchShape Proofs.DispatchLabels.
Open Scope nat_scope.

Section S.
Variable H : bytes -> bytes.
Variable skip_verify : bool.
Variable secret_of : N -> secret_res.

(* the dedup table is duplicate-free and holds exactly the keys of the handlers
   that have started and whose goroutine has not yet deleted its entry *)
Theorem C06_inflight_exact : forall es,
  DInv (fst (drun H skip_verify secret_of dinit es)).
Proof. intros es. apply (drun_inv H skip_verify secret_of es dinit dinit_inv). Qed.
Theorem C06_at_most_one_handler_per_key : forall es,
  NoDup (live (gs (fst (drun H skip_verify secret_of dinit es)))).
Proof. exact (at_most_one_handler_per_key H skip_verify secret_of). Qed.

Theorem C06_dispatch_iff : forall s from d r, DInv s ->
  snd (dstep H skip_verify secret_of s (DArrive from d)) = ODispatched r <->
  (exists sec, secret_of from = Sec sec /\ sec <> [] /\
     (skip_verify = true \/ is_authentic_request H d sec = true) /\
     parse d sec = Ok (r_packet r) /\ r_remote r = from) /\
  ~ In (from, ident (r_packet r)) (live (gs s)).
Proof. exact (dispatch_iff H skip_verify secret_of). Qed.

Theorem C06_served_again_after_done : forall s g k, DInv s -> nth_error (gs s) g = Some (GClean k) ->
  ~ In k (live (gs (fst (dstep H skip_verify secret_of s (DClean g))))).
Proof. exact (served_again_after_done H skip_verify secret_of). Qed.

Theorem C06_exactly_once : forall s e,
  length (gs (fst (dstep H skip_verify secret_of s e))) =
  length (gs s) + (match e with DArrive _ _ => 1 | _ => 0 end).
Proof. exact (exactly_once H skip_verify secret_of). Qed.
(* for EVERY state of the model (no invariant assumed) and every event: a handler is started only by an arriving
   datagram that [decide] accepts and whose key is absent, and that step inserts exactly this key; the only other
   write to the in-flight table is the deferred delete of a goroutine whose handler has returned, of exactly its own
   key; goroutines are never forgotten *)
Theorem C06_label_table : forall s e,
  let s' := fst (dstep H skip_verify secret_of s e) in
  let o := snd (dstep H skip_verify secret_of s e) in
  (forall r, o = ODispatched r ->
     exists from d, e = DArrive from d /\ decide H skip_verify secret_of from d = Some r /\
       mem (from, ident (r_packet r)) (inflight s) = false /\
       inflight s' = (from, ident (r_packet r)) :: inflight s) /\
  (inflight s' <> inflight s -> (forall r, o <> ODispatched r) ->
     exists g k, e = DClean g /\ nth_error (gs s) g = Some (GClean k) /\ inflight s' = delete k (inflight s)) /\
  length (gs s) <= length (gs s').
Proof. exact (dispatch_label_table_holds H skip_verify secret_of). Qed.
End S.

Theorem C06_reply_goes_back_authentic : forall H, (forall x, length (H x) = 16) ->
  forall d sec p from rc extra dst w,
  bytes_ok d -> parse d sec = Ok p -> sec <> [] -> In rc rfc_reply_codes ->
  response_write H (mkreq p from) (mkpacket rc (ident p) (auth p) (secret p) extra) = Ok (dst, w) ->
  dst = from /\ is_authentic_response H w d sec = true.
Proof. exact reply_goes_back_authentic. Qed.

From Radius Require Import Spec.C06.
Theorem C06_oracle : forall H skip secret_of es s,
  drun H skip secret_of s es = spec_drun H skip secret_of s es.
Proof. exact drun_eq_spec. Qed.

From Radius Require Import Crypto.MD5.
Example C06_example :
  let sec := [115]%N in
  let q := [1; 7; 0; 20]%N ++ repeat 5%N 16 in
  let so := fun a : N => if (a =? 9)%N then SecErr else Sec sec in
  match drun md5 false so dinit [DArrive 1 q; DArrive 1 q; DArrive 2 q; DArrive 9 q; DReturn 0; DClean 0; DArrive 1 q] with
  | (s, [ODispatched _; ODropped; ODispatched _; ODropped; ONone; ONone; ODispatched _]) => length (inflight s) = 2
  | _ => False
  end.
Proof. vm_compute. reflexivity. Qed.

(* the goroutine of a datagram as written: the in-flight table is tested and extended under one hold of the lock
   before the handler runs, the entry deleted under the lock after it returned, on no other path
   (Proofs/DispatchShape.v) *)
Theorem C06_code_order : dispatch_order.
Proof. exact dispatch_order_holds. Qed.

(* ... and these are all the paths: every list of decisions long enough to reach the end of any path through the
   skeleton yields one of the model's traces *)
Theorem C06_code_paths_complete : dispatch_paths_complete.
Proof. exact dispatch_paths_complete_holds. Qed.

Print Assumptions C06_inflight_exact.
Print Assumptions C06_at_most_one_handler_per_key.
Print Assumptions C06_dispatch_iff.
Print Assumptions C06_served_again_after_done.
Print Assumptions C06_exactly_once.
Print Assumptions C06_reply_goes_back_authentic.
Print Assumptions C06_oracle.
Print Assumptions C06_code_order.
Print Assumptions C06_code_paths_complete.
Print Assumptions C06_label_table.
