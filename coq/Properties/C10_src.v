(* Properties/C10_src.v — attribute.go as written computes the wire formats of Spec/C10.v, for all inputs.
   Statements about the translation of the Go source itself (Gen/Src.v, regenerated from
   /repo on every run by srcfacts/golite.go) under the interpreter of Base/GoLite.v.  [fn t] is the
   translated function, or a function that panics at once when the translator refused it. *)
From Coq Require Import String.
From Radius Require Import Base.Bytes Base.Res Base.GoLite Gen.Src Model.SrcRun Proofs.SrcBase Proofs.SrcCtx Spec.C10 Proofs.SrcCodecs Proofs.SrcPrefix Proofs.SrcNewPrefix.
Open Scope list_scope.
Open Scope nat_scope.

Theorem C10_src_Integer_spec : forall cx n a,
  run cx n (fn src_Integer) [VBytes a] = Some (Some (ret_res (spec_dec_uint 4 a) vN (VInt 0))).
Proof. exact src_Integer_spec. Qed.
Print Assumptions C10_src_Integer_spec.

Theorem C10_src_Short_spec : forall cx n a,
  run cx n (fn src_Short) [VBytes a] = Some (Some (ret_res (spec_dec_uint 2 a) vN (VInt 0))).
Proof. exact src_Short_spec. Qed.
Print Assumptions C10_src_Short_spec.

Theorem C10_src_Integer64_spec : forall cx n a,
  run cx n (fn src_Integer64) [VBytes a] = Some (Some (ret_res (spec_dec_uint 8 a) vN (VInt 0))).
Proof. exact src_Integer64_spec. Qed.
Print Assumptions C10_src_Integer64_spec.

Theorem C10_src_NewInteger_spec : forall cx n i,
  (0 <= i)%Z ->
  run cx n (fn src_NewInteger) [VInt i] = Some (Some (VBytes (spec_enc_uint 4 (Z.to_N i)))).
Proof. exact src_NewInteger_spec. Qed.
Print Assumptions C10_src_NewInteger_spec.

Theorem C10_src_NewShort_spec : forall cx n i,
  (0 <= i)%Z ->
  run cx n (fn src_NewShort) [VInt i] = Some (Some (VBytes (spec_enc_uint 2 (Z.to_N i)))).
Proof. exact src_NewShort_spec. Qed.
Print Assumptions C10_src_NewShort_spec.

Theorem C10_src_NewInteger64_spec : forall cx n i,
  (0 <= i)%Z ->
  run cx n (fn src_NewInteger64) [VInt i] = Some (Some (VBytes (spec_enc_uint 8 (Z.to_N i)))).
Proof. exact src_NewInteger64_spec. Qed.
Print Assumptions C10_src_NewInteger64_spec.

Theorem C10_src_String_spec : forall cx n a,
  run cx n (fn src_String) [VBytes a] = Some (Some (VBytes a)).
Proof. exact src_String_spec. Qed.
Print Assumptions C10_src_String_spec.

Theorem C10_src_NewString_spec : forall cx n s,
  run cx n (fn src_NewString) [VBytes s] = Some (Some (ret_res (spec_new_octets s) VBytes VNil)).
Proof. exact src_NewString_spec. Qed.
Print Assumptions C10_src_NewString_spec.

Theorem C10_src_Bytes_spec : forall cx n a,
  run cx n (fn src_Bytes) [VBytes a] = Some (Some (VBytes a)).
Proof. exact src_Bytes_spec. Qed.
Print Assumptions C10_src_Bytes_spec.

Theorem C10_src_NewBytes_spec : forall cx n b,
  run cx n (fn src_NewBytes) [VBytes b] = Some (Some (ret_res (spec_new_octets b) VBytes VNil)).
Proof. exact src_NewBytes_spec. Qed.
Print Assumptions C10_src_NewBytes_spec.

Theorem C10_src_IPAddr_spec : forall cx n a,
  run cx n (fn src_IPAddr) [VBytes a] = Some (Some (ret_res (spec_fixed 4 a) VBytes VNil)).
Proof. exact src_IPAddr_spec. Qed.
Print Assumptions C10_src_IPAddr_spec.

Theorem C10_src_IPv6Addr_spec : forall cx n a,
  run cx n (fn src_IPv6Addr) [VBytes a] = Some (Some (ret_res (spec_fixed 16 a) VBytes VNil)).
Proof. exact src_IPv6Addr_spec. Qed.
Print Assumptions C10_src_IPv6Addr_spec.

Theorem C10_src_IFID_spec : forall cx n a,
  run cx n (fn src_IFID) [VBytes a] = Some (Some (ret_res (spec_fixed 8 a) VBytes VNil)).
Proof. exact src_IFID_spec. Qed.
Print Assumptions C10_src_IFID_spec.

Theorem C10_src_NewIFID_spec : forall cx n a,
  run cx n (fn src_NewIFID) [VBytes a] = Some (Some (ret_res (spec_fixed 8 a) VBytes VNil)).
Proof. exact src_NewIFID_spec. Qed.
Print Assumptions C10_src_NewIFID_spec.

Theorem C10_src_Date_spec : forall cx n a,
  run cx n (fn src_Date) [VBytes a] = Some (Some (ret_res (spec_date a) VInt (VInt (-62135596800)))).
Proof. exact src_Date_spec. Qed.
Print Assumptions C10_src_Date_spec.

Theorem C10_src_NewDate_spec : forall cx n u,
  run cx n (fn src_NewDate) [VInt u] = Some (Some (ret_res (spec_new_date u) VBytes VNil)).
Proof. exact src_NewDate_spec. Qed.
Print Assumptions C10_src_NewDate_spec.

Theorem C10_src_VendorSpecific_spec : forall cx n a,
  run cx n (fn src_VendorSpecific) [VBytes a] =
  Some (Some (match spec_vsa a with
              | Ok (id, v) => VTup [vN id; VBytes v; VNil]
              | _ => VTup [VInt 0; VNil; VErr]
              end)).
Proof. exact src_VendorSpecific_spec. Qed.
Print Assumptions C10_src_VendorSpecific_spec.

Theorem C10_src_NewVendorSpecific_spec : forall cx n id v,
  (0 <= id)%Z ->
  run cx n (fn src_NewVendorSpecific) [VInt id; VBytes v] =
  Some (Some (ret_res (spec_new_vsa (Z.to_N id) v) VBytes VNil)).
Proof. exact src_NewVendorSpecific_spec. Qed.
Print Assumptions C10_src_NewVendorSpecific_spec.

Theorem C10_src_TLV_spec : forall cx n a,
  bytes_ok a ->
  run cx n (fn src_TLV) [VBytes a] =
  Some (Some (match spec_tlv6929 a with
              | Ok (t, v) => VTup [vN t; VBytes v; VNil]
              | _ => VTup [VInt 0; VNil; VErr]
              end)).
Proof. exact src_TLV_spec. Qed.
Print Assumptions C10_src_TLV_spec.

Theorem C10_src_NewTLV_spec : forall cx n t v,
  (0 <= t < 256)%Z ->
  run cx n (fn src_NewTLV) [VInt t; VBytes v] = Some (Some (ret_res (spec_new_tlv (Z.to_N t) v) VBytes VNil)).
Proof. exact src_NewTLV_spec. Qed.
Print Assumptions C10_src_NewTLV_spec.

Theorem C10_src_NewIPAddr_spec : forall cx n ip,
  uses_prims cx ->
  run cx n (fn src_NewIPAddr) [VBytes ip] = Some (Some (ret_res (spec_new_ipaddr ip) VBytes VNil)).
Proof. exact src_NewIPAddr_spec. Qed.
Print Assumptions C10_src_NewIPAddr_spec.

Theorem C10_src_NewIPv6Addr_spec : forall cx n ip,
  uses_prims cx ->
  run cx n (fn src_NewIPv6Addr) [VBytes ip] = Some (Some (ret_res (spec_new_ipv6addr ip) VBytes VNil)).
Proof. exact src_NewIPv6Addr_spec. Qed.
Print Assumptions C10_src_NewIPv6Addr_spec.

Theorem C10_source_IPv6Prefix : forall cx n a, uses_prims cx -> bytes_ok a -> 16 < n ->
  run cx n (fn src_IPv6Prefix) [VBytes a] =
  Some (Some (ret_res (spec_ipv6prefix a) (fun r => VRec [VBytes (fst r); VBytes (snd r)]) VNil)).
Proof. exact src_IPv6Prefix_spec. Qed.
Print Assumptions C10_source_IPv6Prefix.

Theorem C10_source_NewIPv6Prefix : forall cx n ip mask, uses_prims cx -> bytes_ok ip -> bytes_ok mask -> 8 < n ->
  run cx n (fn src_NewIPv6Prefix) [VRec [VBytes ip; VBytes mask]] =
  Some (Some (ret_res (spec_new_ipv6prefix ip mask) VBytes VNil)).
Proof. exact src_NewIPv6Prefix_spec. Qed.
Print Assumptions C10_source_NewIPv6Prefix.

(* non-vacuity: values through the translated encoders and decoders *)
Example C10_src_example :
  src_run "NewInteger" 10 [VInt 258] = Some (Some (VBytes [0; 0; 1; 2]%N)) /\
  src_run "Integer" 10 [VBytes [0; 0; 1; 2]%N] = Some (Some (VTup [VInt 258; VNil])) /\
  src_run "Integer" 10 [VBytes [0; 1; 2]%N] = Some (Some (VTup [VInt 0; VErr])) /\
  src_run "NewDate" 10 [VInt (-1)] = Some (Some (VTup [VNil; VErr])) /\
  src_run "IPv6Prefix" 100 [VBytes [0; 21; 255; 255; 248]%N] =
    Some (Some (VTup [VRec [VBytes ([255; 255; 248]%N ++ repeat 0%N 13); VBytes ([255; 255; 248]%N ++ repeat 0%N 13)]; VNil])) /\
  src_run "IPv6Prefix" 100 [VBytes [0; 21; 255; 255; 252]%N] = Some (Some (VTup [VNil; VErr])) /\
  src_run "NewIPv6Prefix" 100 [VRec [VBytes (repeat 255%N 16); VBytes ([255; 255; 248]%N ++ repeat 0%N 13)]] =
    Some (Some (VTup [VBytes [0; 21; 255; 255; 248]%N; VNil])).
Proof. repeat split; vm_compute; reflexivity. Qed.
