(* C13 — reading never writes: observers are pure, results do not alias the packet.
   Three layers: (1) Gen/Effects.v, regenerated from the source on every run: for each of the ~1800
   reader functions of the tree (core readers, typed decoders, debug dumper, every generated
   Get/Gets/Lookup/GetString(s)/LookupString/String) the writes through caller-visible memory, the
   calls not known to be read-only and whether a result may alias it — checked exhaustively here;
   (2) Model/Mem.v: the readers on an explicit heap, proved to only extend it, to return the pure
   model's result and fresh cells; (3) the run-time image/overwrite/repeat checks of harness C13
   and the m.mem correspondence. *)
From Coq Require Import List.
From Radius Require Import Base.Bytes Base.Res Model.Attrs Model.Packet Model.Helpers Model.Mem Gen.Effects
  Proofs.Mem Proofs.Effects.
Import ListNotations.
Open Scope nat_scope.
Open Scope list_scope.

Theorem C13_every_reader_function_is_clean : forall r, In r readers ->
  r_writes r = [] /\ r_unknown r = [] /\ (r_alias r = true -> may_alias_by_design (r_role r) = true).
Proof. exact every_reader_is_clean. Qed.
Print Assumptions C13_every_reader_function_is_clean.

Theorem C13_table_covers_the_read_api :
  List.length readers = n_readers /\
  count_role (fun r => match r with RDecoder => true | _ => false end) = 14 /\
  count_role (fun r => match r with RParse => true | _ => false end) = 2 /\
  count_role (fun r => match r with REncode => true | _ => false end) = 4 /\
  count_role (fun r => match r with RPredicate => true | _ => false end) = 2 /\
  count_role (fun r => match r with RList => true | _ => false end) = 2 /\
  count_role (fun r => match r with RDump => true | _ => false end) = 5 /\
  Nat.leb 1500 (count_role (fun r => match r with RGetter => true | _ => false end)) = true.
Proof. exact table_covers_the_read_api. Qed.
Print Assumptions C13_table_covers_the_read_api.

(* a parsed packet does not alias the buffer it was parsed from *)
Theorem C13_parse_copies : forall h b sec h' m p, in_heap h sec -> parse (rd h b) (rd h sec) = Ok p ->
  m_parse h b sec = (h', Ok m) ->
  (exists e, h' = h ++ e) /\ Forall (fun a => fresh h (snd a)) (mp_attrs m) /\ pview h' m = p.
Proof. exact parse_mem. Qed.
Print Assumptions C13_parse_copies.
Theorem C13_parse_no_alias : forall h b sec h' m p i v, in_heap h sec -> in_heap h b -> s_addr sec <> s_addr b ->
  parse (rd h b) (rd h sec) = Ok p -> m_parse h b sec = (h', Ok m) -> pview (wr h' b i v) m = p.
Proof. exact parse_no_alias. Qed.
Print Assumptions C13_parse_no_alias.

(* encoding writes only into a fresh buffer; copying decoders return fresh cells *)
Theorem C13_marshal_pure : forall h m h' r, wf_mp h m -> m_marshal h m = (h', r) ->
  (exists e, h' = h ++ e) /\ pview h' m = pview h m /\
  match r with Ok s => marshal (pview h m) = Ok (rd h' s) /\ fresh h s | _ => h' = h end.
Proof. exact marshal_mem. Qed.
Print Assumptions C13_marshal_pure.
Theorem C13_decoder_pure : forall f h m s h' r, wf_mp h m -> m_copy_decoder f h s = (h', r) ->
  (exists e, h' = h ++ e) /\ pview h' m = pview h m /\
  match r with Ok s' => f (rd h s) = Ok (rd h' s') /\ fresh h s' | _ => h' = h end.
Proof. exact copy_decoder_mem. Qed.
Print Assumptions C13_decoder_pure.

(* generated getters: heap only grows, packet reads the same, result = pure model, byte fields fresh *)
Theorem C13_lookup_pure : forall Hs d h m q h' r, wf_mp h m -> m_lookup Hs false d h m q = (h', r) ->
  (exists e, h' = h ++ e) /\ pview h' m = pview h m /\
  agrees (val_view h') r (h_lookup Hs d (pview h m) q) /\
  match r with Ok v => fresh h (v_b v) /\ fresh h (v_mask v) | _ => h' = h end.
Proof. exact lookup_mem. Qed.
Print Assumptions C13_lookup_pure.
Theorem C13_gets_pure : forall Hs d h m q h' r, wf_mp h m -> m_gets Hs false d h m q = (h', r) ->
  (exists e, h' = h ++ e) /\ pview h' m = pview h m /\
  agrees (map (val_view h')) r (h_gets Hs d (pview h m) q) /\
  match r with Ok vs => Forall (fun v => fresh h (v_b v) /\ fresh h (v_mask v)) vs | _ => True end.
Proof. exact gets_mem. Qed.
Print Assumptions C13_gets_pure.
Theorem C13_lookup_repeatable : forall Hs d h m q h1 r1 h2 r2, wf_mp h m ->
  m_lookup Hs false d h m q = (h1, r1) -> m_lookup Hs false d h1 m q = (h2, r2) ->
  forall x, agrees (val_view h1) r1 x -> agrees (val_view h2) r2 x.
Proof. exact lookup_repeatable. Qed.
Print Assumptions C13_lookup_repeatable.

(* modifying a returned value does not modify the packet *)
Theorem C13_results_do_not_alias : forall h0 e m s i v, wf_mp h0 m -> fresh h0 s ->
  pview (wr (h0 ++ e) s i v) m = pview h0 m.
Proof. exact scribble_fresh_preserves. Qed.
Print Assumptions C13_results_do_not_alias.

(* the slices a getter reads hold exactly the values of the pure model (also inside shared Vendor-Specific attributes) *)
Theorem C13_raw_refines : forall d h m, map (rd h) (m_raw d h m) = h_raw d (pview h m).
Proof. exact raw_refines. Qed.
Print Assumptions C13_raw_refines.

(* the original tagged-integer getter is refuted by the same model (finding F5, fixed) *)
Theorem C13_legacy_getter_writes :
  let '(h1, r1) := m_lookup idH true ex_d ex_heap ex_mp ex_q in
  let '(h2, r2) := m_lookup idH true ex_d h1 ex_mp ex_q in
  pview h1 ex_mp <> pview ex_heap ex_mp /\
  (exists v1 v2, r1 = Ok v1 /\ r2 = Ok v2 /\ v_tag v1 = 5%N /\ v_tag v2 = 0%N).
Proof. exact legacy_getter_writes. Qed.
Print Assumptions C13_legacy_getter_writes.
