(* Properties/C09.v — Attribute list behaves as an ordered multimap and encodes
   in list order.  Only statements; every proof is `exact <lemma>`. *)
From Radius Require Import Base.Bytes Base.Res Model.Attrs Spec.C09 Proofs.AttrsList Proofs.AttrsWire.
Open Scope nat_scope.

(* The Go loops compute the abstract operations, on every list, for every key,
   without panicking or running out of the stated fuel (|l|+1 iterations). *)
Theorem C09_add_spec : forall k v l, add k v l = spec_add k v l.
Proof. exact add_spec. Qed.
Theorem C09_del_spec : forall k l, del k l = Ok (spec_del k l).
Proof. exact del_spec. Qed.
Theorem C09_lookup_spec : forall k l, lookup k l = spec_lookup k l.
Proof. exact lookup_spec. Qed.
Theorem C09_set_spec : forall k v l, set k v l = Ok (spec_set k v l).
Proof. exact set_spec. Qed.

(* Laws of the statement. *)
Theorem C09_set_exactly_one : forall k v l,
  count_occ Z.eq_dec (map atype (spec_set k v l)) k = 1 /\ spec_lookup k (spec_set k v l) = Some v.
Proof. intros; split; [apply spec_set_count | apply spec_set_lookup]. Qed.
Theorem C09_del_removes_all : forall k l,
  count_occ Z.eq_dec (map atype (spec_del k l)) k = 0 /\ spec_lookup k (spec_del k l) = None.
Proof. intros; split; [apply spec_del_count | apply spec_del_no_key]. Qed.
Theorem C09_others_untouched : forall k v l,
  filter (not_key k) (spec_add k v l) = filter (not_key k) l /\
  filter (not_key k) (spec_set k v l) = filter (not_key k) l /\
  filter (not_key k) (spec_del k l) = filter (not_key k) l.
Proof. intros; repeat split; [apply spec_add_others | apply spec_set_others | apply spec_del_others]. Qed.

(* Every operation sequence from every start list. *)
Theorem C09_run_ops_refines : forall os l, model_run l os = Ok (spec_run l os).
Proof. exact run_ops_refines. Qed.

(* Wire form: in list order, exactly the attributes with type in 0..255, and
   the reported length equals the bytes written. *)
Theorem C09_len_matches : forall l n, enc_len l = Ok n -> n = length (spec_wire l).
Proof. exact enc_len_ok_length. Qed.
Theorem C09_wire_in_list_order : forall l n buf,
  enc_len l = Ok n -> length buf = n -> encode_to l buf = Ok (spec_wire l).
Proof. exact encode_to_exact. Qed.
Theorem C09_len_refuses : forall l,
  (exists n, enc_len l = Ok n) <-> forallb (fun a => negb (in_range a) || (length (aval a) <=? 253)) l = true.
Proof. exact enc_len_ok_iff. Qed.

(* non-vacuity: a list with duplicates, an out-of-range type and an empty value *)
Example C09_example :
  let l := [mkavp 1 [7]; mkavp 256 []; mkavp 1 []; mkavp 2 [8; 9]; mkavp 1 [3]]%N%Z in
  set 1 [5]%N l = Ok [mkavp 1 [5]; mkavp 256 []; mkavp 2 [8; 9]]%N%Z /\
  del 1 l = Ok [mkavp 256 []; mkavp 2 [8; 9]]%N%Z /\
  enc_len l = Ok 12 /\ encode_to l (repeat 0%N 12) = Ok [1; 3; 7; 1; 2; 2; 4; 8; 9; 1; 3; 3]%N.
Proof. vm_compute. repeat split. Qed.

Print Assumptions C09_add_spec.
Print Assumptions C09_del_spec.
Print Assumptions C09_lookup_spec.
Print Assumptions C09_set_spec.
Print Assumptions C09_set_exactly_one.
Print Assumptions C09_del_removes_all.
Print Assumptions C09_others_untouched.
Print Assumptions C09_run_ops_refines.
Print Assumptions C09_len_matches.
Print Assumptions C09_wire_in_list_order.
Print Assumptions C09_len_refuses.
