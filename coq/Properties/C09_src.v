(* Properties/C09_src.v — the loops of attributes.go as written are the ordered-multimap operations of Spec/C09.v, for all lists.
   Statements about the translation of the Go source itself (Gen/Src.v, regenerated from
   /repo on every run by srcfacts/golite.go) under the interpreter of Base/GoLite.v.  [fn t] is the
   translated function, or a function that panics at once when the translator refused it. *)
From Coq Require Import String.
From Radius Require Import Base.Bytes Base.Res Base.GoLite Gen.Src Model.SrcRun Proofs.SrcBase Proofs.SrcCtx Model.Attrs Spec.C09 Proofs.SrcDefs Proofs.SrcAttrs.
Open Scope list_scope.
Open Scope nat_scope.

Theorem C09_abs_add : forall vl k v,
  abs_attrs (vl ++ [vavp k v]) = spec_add k (bytes_of v) (abs_attrs vl).
Proof. exact abs_add. Qed.
Print Assumptions C09_abs_add.

Theorem C09_abs_del : forall vl k,
  Forall is_avp vl -> abs_attrs (filter (vnot_key k) vl) = spec_del k (abs_attrs vl).
Proof. exact abs_del. Qed.
Print Assumptions C09_abs_del.

Theorem C09_abs_set : forall vl k v,
  Forall is_avp vl ->
  abs_attrs (vset_list k v vl) = spec_set k (bytes_of v) (abs_attrs vl).
Proof. exact abs_set. Qed.
Print Assumptions C09_abs_set.

Theorem C09_abs_lookup : forall vl k,
  Forall is_avp vl ->
  match spec_lookup k (abs_attrs vl) with
  | Some x => exists bv, lookup_result k vl = VTup [bv; VBool true] /\ is_slice bv /\ bytes_of bv = x
  | None => lookup_result k vl = VTup [VNil; VBool false]
  end.
Proof. exact abs_lookup. Qed.
Print Assumptions C09_abs_lookup.

Theorem C09_program_Lookup : forall fuel k vl,
  Forall is_avp vl -> length vl < fuel ->
  src_run "Attributes.Lookup" fuel [VList vl; VInt k] = Some (Some (lookup_result k vl)).
Proof. exact program_Lookup. Qed.
Print Assumptions C09_program_Lookup.

Theorem C09_program_Get : forall fuel k vl,
  Forall is_avp vl -> length vl < fuel ->
  src_run "Attributes.Get" fuel [VList vl; VInt k] =
  Some (Some (match find (vkey k) vl with Some v => vattr v | None => VNil end)).
Proof. exact program_Get. Qed.
Print Assumptions C09_program_Get.

Theorem C09_program_Add : forall fuel k v vl,
  src_run "Attributes.Add" fuel [VList vl; VInt k; v] = Some (Some (VTup [VList (vl ++ [vavp k v])])).
Proof. exact program_Add. Qed.
Print Assumptions C09_program_Add.

Theorem C09_program_Del : forall fuel k vl,
  Forall is_avp vl -> length vl < fuel ->
  src_run "Attributes.Del" fuel [VList vl; VInt k] = Some (Some (VTup [VList (filter (vnot_key k) vl)])).
Proof. exact program_Del. Qed.
Print Assumptions C09_program_Del.

Theorem C09_program_Set : forall fuel k v vl,
  Forall is_avp vl -> is_slice v -> length vl < fuel ->
  src_run "Attributes.Set" fuel [VList vl; VInt k; v] = Some (Some (VTup [VList (vset_list k v vl)])).
Proof. exact program_Set. Qed.
Print Assumptions C09_program_Set.

(* non-vacuity: a concrete list with a repeated key *)
Definition ex_attrs : list val := [vavp 1 (VBytes [97]%N); vavp 2 VNil; vavp 1 (VBytes [98]%N)].
Example C09_src_example :
  Forall is_avp ex_attrs /\
  src_run "Attributes.Set" 100 [VList ex_attrs; VInt 1; VBytes [7]%N] = Some (Some (VTup [VList [vavp 1 (VBytes [7]%N); vavp 2 VNil]])) /\
  src_run "Attributes.Del" 100 [VList ex_attrs; VInt 1] = Some (Some (VTup [VList [vavp 2 VNil]])) /\
  src_run "Attributes.Lookup" 100 [VList ex_attrs; VInt 1] = Some (Some (VTup [VBytes [97]%N; VBool true])) /\
  src_run "Attributes.Get" 100 [VList ex_attrs; VInt 3] = Some (Some VNil).
Proof.
  split; [unfold ex_attrs; repeat (apply Forall_cons; [apply is_avp_intro; solve [left; reflexivity | right; eexists; reflexivity]|]); apply Forall_nil|].
  repeat split; vm_compute; reflexivity.
Qed.
