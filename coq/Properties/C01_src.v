(* Properties/C01_src.v — Parse, ParseAttributes, MarshalBinary, AttributesEncodedLen and encodeTo as written are the wire format of Spec/C01.v, for all byte strings and packets.
   Statements about the translation of the Go source itself (Gen/Src.v, regenerated from
   /repo on every run by srcfacts/golite.go) under the interpreter of Base/GoLite.v.  [fn t] is the
   translated function, or a function that panics at once when the translator refused it. *)
From Coq Require Import String.
From Radius Require Import Base.Bytes Base.Res Base.Guard Base.GoLite Gen.Src Crypto.MD5 Model.SrcRun Proofs.SrcBase Proofs.SrcCtx Model.Attrs Spec.C09 Spec.C01 Proofs.SrcDefs Proofs.SrcParse Proofs.SrcMarshal.
Open Scope list_scope.
Open Scope nat_scope.

Theorem C01_program_ParseAttributes : forall fuel b,
  bytes_ok b -> length b < fuel ->
  src_run "ParseAttributes" fuel [VBytes b] = parse_attrs_result b.
Proof. exact program_ParseAttributes. Qed.
Print Assumptions C01_program_ParseAttributes.

Theorem C01_program_Parse : forall fuel b secret,
  bytes_ok b -> length b < fuel ->
  src_run "Parse" fuel [VBytes b; secret] = parse_result b secret.
Proof. exact program_Parse. Qed.
Print Assumptions C01_program_Parse.

Theorem C01_src_AttributesEncodedLen_spec : forall cx n vl,
  Forall is_avp vl -> length vl < n ->
  run cx n (fn src_AttributesEncodedLen) [VList vl] = Some (Some (enclen_result vl)).
Proof. exact src_AttributesEncodedLen_spec. Qed.
Print Assumptions C01_src_AttributesEncodedLen_spec.

Theorem C01_src_encodeTo_spec : forall cx n vl buf,
  Forall is_avp vl -> length vl < n ->
  forallb v_fits vl = true -> length (vwire vl) <= length buf ->
  run cx n (fn src_Attributes_encodeTo) [VList vl; VBytes buf] =
  Some (Some (VTup [VBytes (vwire vl ++ skipn (length (vwire vl)) buf)])).
Proof. exact src_encodeTo_spec. Qed.
Print Assumptions C01_src_encodeTo_spec.

Theorem C01_vwire_abs : forall vl,
  Forall is_avp vl -> vwire vl = spec_wire (abs_attrs vl).
Proof. exact vwire_abs. Qed.
Print Assumptions C01_vwire_abs.

Theorem C01_fits_abs : forall vl,
  Forall is_avp vl -> forallb v_fits vl = forallb spec_value_fits (abs_attrs vl).
Proof. exact fits_abs. Qed.
Print Assumptions C01_fits_abs.

Theorem C01_marshal_result_spec : forall c i auth vl,
  Forall is_avp vl -> (0 <= i)%Z ->
  marshal_result c i auth vl =
  match spec_marshal c (Z.to_N i) auth (abs_attrs vl) with
  | Ok w => VTup [VBytes w; VNil]
  | _ => VTup [VNil; VErr]
  end.
Proof. exact marshal_result_spec. Qed.
Print Assumptions C01_marshal_result_spec.

Theorem C01_program_MarshalBinary : forall fuel c i auth secret vl,
  Forall is_avp vl -> length vl < fuel -> (0 <= i < 256)%Z -> length auth = 16 ->
  src_run "Packet.MarshalBinary" fuel [vpacket c i auth secret vl] = Some (Some (marshal_result c i auth vl)).
Proof. exact program_MarshalBinary. Qed.
Print Assumptions C01_program_MarshalBinary.

(* non-vacuity: a concrete datagram meets the hypotheses and the translated Parse returns its packet;
   a concrete packet is marshalled by the translated MarshalBinary *)
Definition ex_dgram : bytes := [1; 7; 0; 29]%N ++ repeat 9%N 16 ++ [1; 5; 97; 98; 99; 4; 2; 6; 2]%N.
Example C01_src_example :
  bytes_ok ex_dgram /\ length ex_dgram < 100 /\
  src_run "Parse" 100 [VBytes ex_dgram; VBytes [115]%N] =
    Some (Some (VTup [VRec [VInt 1; VInt 7; VBytes (repeat 9%N 16); VBytes [115]%N;
                            VList [vavp 1 (VBytes [97; 98; 99]%N); vavp 4 VNil; vavp 6 VNil]]; VNil])) /\
  src_run "Packet.MarshalBinary" 100 [vpacket 1 7 (repeat 9%N 16) (VBytes [115]%N)
                                        [vavp 1 (VBytes [97; 98; 99]%N); vavp 4 VNil; vavp 300 (VBytes [1]%N); vavp 6 VNil]] =
    Some (Some (VTup [VBytes ex_dgram; VNil])).
Proof. split; [apply bytes_okb_spec; reflexivity|]. split; [vm_compute; lia|]. split; vm_compute; reflexivity. Qed.
