(* Properties/C01_src.v — Parse and ParseAttributes as written decode exactly the wire format of Spec/C01.v, for all byte strings.
   Statements about the translation of the Go source itself (Gen/Src.v, regenerated from
   /repo on every run by srcfacts/golite.go) under the interpreter of Base/GoLite.v.  [fn t] is the
   translated function, or a function that panics at once when the translator refused it. *)
From Coq Require Import String.
From Radius Require Import Base.Bytes Base.Res Base.GoLite Gen.Src Model.SrcRun Proofs.SrcBase Proofs.SrcCtx Model.Attrs Spec.C01 Proofs.SrcAttrs Proofs.SrcParse.
Open Scope list_scope.
Open Scope nat_scope.

Theorem C01_program_ParseAttributes : forall fuel b,
  bytes_ok b -> length b < fuel ->
  src_run "ParseAttributes" fuel [VBytes b] = parse_attrs_result b.
Proof. exact program_ParseAttributes. Qed.
Print Assumptions C01_program_ParseAttributes.

Theorem C01_program_Parse : forall fuel b secret,
  bytes_ok b -> length b < fuel ->
  src_run "Parse" fuel [VBytes b; secret] = parse_result b secret.
Proof. exact program_Parse. Qed.
Print Assumptions C01_program_Parse.
