(* Properties/C19.v — MS-CHAPv2 and MPPE key derivation compute exactly RFC 2759
   / RFC 3079 / RFC 2548.  The compositions are proved for every SHA-1/MD4/DES/
   UTF-16 with the right output sizes; the primitives themselves (Crypto/*.v,
   validated by the RFC test vectors) are tied to Go's by differential runs. *)
From Coq Require Import String Ascii.
From Radius Require Import Base.Bytes Base.Res Model.MSCHAP Spec.C19 Proofs.MSCHAP.
Open Scope list_scope.
Open Scope nat_scope.

(* the magic byte arrays of the Go source are the RFC's text constants *)
Theorem C19_consts_are_rfc :
  Gen.Consts.B_rfc2759_magic1 = rfc_magic1 /\ Gen.Consts.B_rfc2759_magic2 = rfc_magic2 /\
  Gen.Consts.B_rfc3079_magic1 = rfc_mppe_magic1 /\ Gen.Consts.B_rfc3079_magic2 = rfc_mppe_magic2 /\
  Gen.Consts.B_rfc3079_magic3 = rfc_mppe_magic3 /\
  Gen.Consts.B_rfc3079_shaPad1 = rfc_shspad1 /\ Gen.Consts.B_rfc3079_shaPad2 = rfc_shspad2 /\
  Gen.Consts.K_rfc3079_KeyLength128Bit = 16%Z /\ Gen.Consts.K_rfc3079_KeyLength40Bit = 8%Z.
Proof. exact consts_are_rfc. Qed.

(* DES key expansion: seven bits per octet plus odd parity, for all 2^56 keys *)
Theorem C19_parity_pad_is_rfc : forall key, parity_pad key = rfc_des_key key.
Proof. exact parity_pad_is_rfc. Qed.

Section P.
Variable SHA1 MD4 UTF16 : bytes -> bytes.
Variable DES : bytes -> bytes -> bytes.
Hypothesis SHA1_len : forall x, length (SHA1 x) = 20.
Hypothesis MD4_len : forall x, length (MD4 x) = 16.
Hypothesis SHA1_ok : forall x, bytes_ok (SHA1 x).

Theorem C19_challenge_hash_is_rfc : forall peer auth user,
  challenge_hash SHA1 peer auth user = rfc_challenge_hash SHA1 peer auth user.
Proof. intros; eapply challenge_hash_is_rfc; eauto. Qed.
Theorem C19_challenge_response_is_rfc : forall challenge hash, length challenge = 8 -> length hash = 16 ->
  challenge_response DES challenge hash = rfc_challenge_response DES challenge hash.
Proof. intros; eapply challenge_response_is_rfc; eauto. Qed.
Theorem C19_generate_nt_response_is_rfc : forall auth peer user pw,
  generate_nt_response SHA1 MD4 UTF16 DES auth peer user pw =
  rfc_generate_nt_response SHA1 MD4 UTF16 DES auth peer user pw.
Proof. intros; eapply generate_nt_response_is_rfc; eauto. Qed.
Theorem C19_generate_authenticator_response_is_rfc : forall auth peer ntresp user pw,
  generate_authenticator_response SHA1 MD4 UTF16 auth peer ntresp user pw =
  rfc_generate_authenticator_response SHA1 MD4 UTF16 auth peer ntresp user pw.
Proof. intros; eapply generate_authenticator_response_is_rfc; eauto. Qed.
Theorem C19_authenticator_response_format : forall auth peer ntresp user pw,
  let r := rfc_generate_authenticator_response SHA1 MD4 UTF16 auth peer ntresp user pw in
  length r = 42 /\ firstn 2 r = txt "S=" /\ Forall (fun c => In c (txt "0123456789ABCDEF")) (skipn 2 r).
Proof. intros; eapply authenticator_response_format; eauto. Qed.
Theorem C19_get_master_key_is_rfc : forall hh ntresp,
  get_master_key SHA1 hh ntresp = rfc_get_master_key SHA1 hh ntresp.
Proof. intros; eapply get_master_key_is_rfc; eauto. Qed.
Theorem C19_start_key_is_rfc : forall master keylen is_send, keylen <= 20 ->
  get_asymmetric_start_key SHA1 master keylen is_send = spec_get_asymmetric_start_key SHA1 master keylen is_send.
Proof. intros; eapply get_asymmetric_start_key_is_rfc; eauto. Qed.
Theorem C19_make_key_is_rfc : forall ntresp pw is_send,
  make_key SHA1 MD4 UTF16 ntresp pw is_send = spec_make_key SHA1 MD4 UTF16 ntresp pw is_send.
Proof. intros; eapply make_key_is_rfc; eauto. Qed.
Theorem C19_wrong_size_refused : forall master keylen is_send ntresp pw,
  (length master <> 16 -> get_asymmetric_start_key SHA1 master keylen is_send = Err E_invalid) /\
  (length ntresp <> 24 -> make_key SHA1 MD4 UTF16 ntresp pw is_send = Err E_invalid).
Proof. intros; eapply wrong_size_refused; eauto. Qed.
End P.

(* the executable primitives meet the size hypotheses; the RFC 2759 s9.2 worked example *)
From Radius Require Import Crypto.SHA1 Crypto.MD4 Crypto.DES Crypto.UTF16.
Theorem C19_primitives_meet_hypotheses :
  (forall x, length (sha1 x) = 20) /\ (forall x, length (md4 x) = 16) /\ (forall x, bytes_ok (sha1 x)).
Proof. repeat split; [apply sha1_length|apply md4_length|apply sha1_bytes]. Qed.

Definition hexs (s : string) : bytes :=
  (fix go (l : list ascii) : bytes :=
     match l with
     | a :: b :: r => let v c := let n := N_of_ascii c in if (n <? 58)%N then (n - 48)%N else if (n <? 71)%N then (n - 55)%N else (n - 87)%N in
                      (v a * 16 + v b)%N :: go r
     | _ => []
     end) (list_ascii_of_string s).
Example C19_rfc2759_example :
  let user := txt "User" in let pw := txt "clientPass" in
  let auth := hexs "5B5D7C7D7B3F2F3E3C2C602132262628" in let peer := hexs "21402324255E262A28295F2B3A337C7E" in
  generate_nt_response sha1 md4 utf8_to_utf16le des_encrypt auth peer user pw
    = hexs "82309ECD8D708B5EA08FAA3981CD83544233114A3D85D6DF" /\
  generate_authenticator_response sha1 md4 utf8_to_utf16le auth peer
    (hexs "82309ECD8D708B5EA08FAA3981CD83544233114A3D85D6DF") user pw
    = txt "S=407A5589115FD0D6209F510FE9C04566932CDA56".
Proof. vm_compute. split; reflexivity. Qed.

Print Assumptions C19_consts_are_rfc.
Print Assumptions C19_parity_pad_is_rfc.
Print Assumptions C19_challenge_hash_is_rfc.
Print Assumptions C19_challenge_response_is_rfc.
Print Assumptions C19_generate_nt_response_is_rfc.
Print Assumptions C19_generate_authenticator_response_is_rfc.
Print Assumptions C19_authenticator_response_format.
Print Assumptions C19_get_master_key_is_rfc.
Print Assumptions C19_start_key_is_rfc.
Print Assumptions C19_make_key_is_rfc.
Print Assumptions C19_wrong_size_refused.
Print Assumptions C19_primitives_meet_hypotheses.
