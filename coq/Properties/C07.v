(* Properties/C07.v — Graceful shutdown is complete, panic-free, deadlock-free
   under all interleavings.  The model (Model/Shutdown.v) has one step per
   synchronisation point of server-packet.go; [reachable false] quantifies over
   every interleaving of any number of Serve calls, datagram goroutines, handler
   completions and Shutdown calls (repaired ordering: Serve counts itself active
   while it still holds the mutex).  The data-race clause is proved only as
   the lockset discipline of the code as written (C07_code_lockset); the Go memory model is trusted and the harness
   runs under the race detector (partial, see DESIGN.md). *)
From Radius Require Import Base.Bytes Base.Res Model.Shutdown Proofs.ShutdownInv Proofs.Shutdown Proofs.ShutdownShape Proofs.ShutdownLabels.
Open Scope nat_scope.

Theorem C07_invariant : forall s, reachable false s -> Inv s.
Proof. exact reachable_inv. Qed.

(* lastActive is closed at most once (a second close is a run-time panic) and
   the counter never drops below -1 *)
Theorem C07_no_panic : forall s, reachable false s -> closes s <= 1 /\ (-1 <= active s)%Z.
Proof. exact no_panic. Qed.

(* nil only after every Serve call that registered has finished its clean-up and
   every started handler has returned; Serve calls that have not registered yet
   will be refused (C07_serve_returns_shutdown) *)
Theorem C07_shutdown_nil_means_drained : forall s e, reachable false s -> In (TShut H_ret_nil e) (threads s) ->
  shut s = true /\ closes s = 1 /\
  (forall c pc, In (TServe c pc) (threads s) -> pc = S_start \/ pc = S_locked \/ exists r, pc = S_returned r) /\
  (forall pc, In (TDgram pc) (threads s) -> pc = D_end).
Proof. exact shutdown_nil_means_drained. Qed.
Theorem C07_drained_is_stable : forall s e s', reachable false s -> closes s = 1 ->
  do_event false s e = Some s' -> closes s' = 1.
Proof. exact drained_is_stable. Qed.

Theorem C07_shutdown_closes_every_listener : forall s, reachable false s ->
  shut s = true -> cnt at_hclose (threads s) = 0 -> incl (regs s) (closedc s).
Proof. exact shutdown_closes_every_listener. Qed.
Theorem C07_shutdown_cancels_ctx : forall s, reachable false s ->
  shut s = true -> cnt pre_cancel (threads s) = 0 -> cancelled s = true.
Proof. exact shutdown_cancels_ctx. Qed.

Theorem C07_serve_returns_shutdown : forall s i c a s', shut s = true -> step false s i a = Some s' ->
  (nth_error (threads s) i = Some (TServe c S_locked) ->
     nth_error (threads s') i = Some (TServe c (S_returned RetShutdown)) /\ regs s' = regs s) /\
  (nth_error (threads s) i = Some (TServe c S_reading) -> forall temp, a = ARead_error temp ->
     nth_error (threads s') i = Some (TServe c (S_exit RetShutdown))).
Proof. exact serve_returns_shutdown. Qed.

Theorem C07_shutdown_err_only_if_ctx_done : forall s, reachable false s ->
  forall e, In (TShut H_ret_err e) (threads s) -> e = true.
Proof. exact shutdown_err_only_if_ctx_done. Qed.

(* deadlock freedom (partial: liveness under fairness is not stated): no thread
   is ever stuck for a reason internal to the server, and a Shutdown that is
   still waiting is waiting for a Serve call or goroutine that really exists *)
Theorem C07_no_internal_deadlock_partial : forall s i t, reachable false s -> nth_error (threads s) i = Some t ->
  finished t = true \/ waits_env t = true \/
  (exists s', step false s i ARun = Some s') \/
  (wants_mu t = true /\ mu s = true /\
   exists j u s', nth_error (threads s) j = Some u /\ in_cs u = true /\ step false s j ARun = Some s').
Proof. exact no_internal_deadlock. Qed.
Theorem C07_waiting_shutdown_waits_for_a_holder : forall s, reachable false s ->
  sdec s = true -> closes s = 0 -> 1 <= cnt holds (threads s).
Proof. exact waiting_shutdown_waits_for_a_holder. Qed.

(* the ordering of the original code (activeAdd after the mutex is released)
   violates both: Shutdown returns nil while a registered Serve is still
   running, and lastActive is closed twice *)
Theorem C07_legacy_ordering_refuted :
  exists es e, let s := run true init es in
    closes s = 2 /\ In (TShut H_ret_nil e) (threads (run true init (firstn 14 es))) /\
    In (TServe 7 S_registered) (threads (run true init (firstn 14 es))).
Proof. exact legacy_ordering_refuted. Qed.

(* the steps of the model are the statements of server-packet.go: on every path through Serve, the goroutine of a
   datagram and Shutdown, the synchronisation operations read from the working tree (the Sync lists of Gen/Consts.v) are the
   operations of the model's steps, in the same order (Proofs/ShutdownShape.v spells the paths out) *)
Theorem C07_code_order : code_order.
Proof. exact code_order_holds. Qed.

(* non-vacuity: a reachable state with a running handler, a waiting Shutdown and a refused Serve *)
Example C07_example :
  let es := [ESpawnServe 1; EStep 0 ARun; EStep 0 ARun; EStep 0 ARun; EStep 0 ARun; EStep 0 ARun;
             EStep 0 (ARead_datagram false); EStep 1 ARun;
             ESpawnShutdown; EStep 2 ARun; EStep 2 ARun; EStep 2 ARun; EStep 2 ARun; EStep 2 ARun; EStep 2 ARun;
             EStep 2 ARun; ESpawnServe 2; EStep 3 ARun; EStep 3 ARun;
             EStep 0 (ARead_error false); EStep 0 ARun; EStep 0 ARun; EStep 0 ARun] in
  let s := run false init es in
  threads s = [TServe 1 (S_returned RetShutdown); TDgram D_handler; TShut H_select false; TServe 2 (S_returned RetShutdown)]
  /\ closes s = 0 /\ active s = 0%Z /\ closedc s = [1] /\
  closes (run false init (es ++ [EStep 1 AHandler_return; EStep 1 ARun; EStep 2 AWake_nil])) = 1.
Proof. vm_compute. repeat split. Qed.

(* ... and these are all the paths: every list of decisions long enough to reach the end of any path through the
   skeleton yields one of the model's traces *)
Theorem C07_code_paths_complete : code_paths_complete.
Proof. exact code_paths_complete_holds. Qed.

(* the data-race clause, as far as it is a matter of the code's own discipline: on every path through Serve, the
   goroutine of a datagram and Shutdown as written, s.listeners (and initLocked, the only writer of the server's
   other fields) is touched only with s.mu held, the in-flight table only with requestsLock held, no lock is taken
   twice or released when not held, and every path ends with both released; activeAdd/activeDone touch only the
   atomic counter and the channel.  What remains trusted: the Go memory model, sync and sync/atomic, and that the
   reads of s.ctx in the goroutines are ordered after initLocked by the go statement. *)
Theorem C07_code_lockset : code_lockset.
Proof. exact code_lockset_holds. Qed.

(* the label table of the model, for EVERY state, thread and action (no reachability hypothesis): which program
   points can change which shared variable.  The mutex is taken only at the three Lock() points and released only
   at the four Unlock() points; shutdownRequested is written only by the compare-and-swap point and only from 0 to
   1; activeCount moves by exactly one, up only at the activeAdd points and down only at the activeDone points;
   lastActive is closed only at an activeDone point that found the counter at 0; s.listeners changes only at the
   registration and removal points of Serve; no step shortens the thread table.  This is what makes the state-diff
   labels of Model/ShutdownShape.v ([step_ops], compared with the source skeleton in C07_code_order) a function of
   the program point rather than of the sampled states. *)
Theorem C07_label_table :
  forall s i a s', step false s i a = Some s' ->
    (mu s = false -> mu s' = true ->
       exists t, nth_error (threads s) i = Some t /\ lock_site t = true /\ a = ARun) /\
    (mu s = true -> mu s' = false ->
       exists t, nth_error (threads s) i = Some t /\ unlock_site t = true /\ a = ARun) /\
    (shut s <> shut s' ->
       exists t, nth_error (threads s) i = Some t /\ cas_site t = true /\ a = ARun /\ shut s = false /\ shut s' = true) /\
    ((active s < active s')%Z ->
       exists t, nth_error (threads s) i = Some t /\ add_site t = true /\ active s' = (active s + 1)%Z) /\
    ((active s' < active s)%Z ->
       exists t, nth_error (threads s) i = Some t /\ done_site t = true /\ a = ARun /\ active s' = (active s - 1)%Z) /\
    (closes s <> closes s' ->
       exists t, nth_error (threads s) i = Some t /\ done_site t = true /\ a = ARun /\
                 active s = 0%Z /\ closes s' = S (closes s)) /\
    (regs s <> regs s' ->
       exists t, nth_error (threads s) i = Some t /\ reg_site t = true /\ a = ARun) /\
    length (threads s) <= length (threads s').
Proof. exact label_table_holds. Qed.

(* non-vacuity: the first step of a Serve call in the initial configuration is a step that takes the mutex *)
Example C07_label_table_nonvacuous :
  exists s', step false (run false init [ESpawnServe 7]) 0 ARun = Some s' /\
             mu (run false init [ESpawnServe 7]) = false /\ mu s' = true.
Proof. eexists. vm_compute. repeat split. Qed.

Print Assumptions C07_invariant.
Print Assumptions C07_no_panic.
Print Assumptions C07_shutdown_nil_means_drained.
Print Assumptions C07_drained_is_stable.
Print Assumptions C07_shutdown_closes_every_listener.
Print Assumptions C07_shutdown_cancels_ctx.
Print Assumptions C07_serve_returns_shutdown.
Print Assumptions C07_shutdown_err_only_if_ctx_done.
Print Assumptions C07_no_internal_deadlock_partial.
Print Assumptions C07_waiting_shutdown_waits_for_a_holder.
Print Assumptions C07_legacy_ordering_refuted.
Print Assumptions C07_code_order.
Print Assumptions C07_code_paths_complete.
Print Assumptions C07_code_lockset.
Print Assumptions C07_label_table.
