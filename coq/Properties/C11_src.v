(* Properties/C11_src.v — NewTunnelPassword and TunnelPassword as written compute RFC 2868 s3.5 (Spec/C11.v with H = MD5), for all passwords, salts, secrets and authenticators.
   Statements about the translation of the Go source itself (Gen/Src.v, regenerated from
   /repo on every run by srcfacts/golite.go) under the interpreter of Base/GoLite.v.  [fn t] is the
   translated function, or a function that panics at once when the translator refused it. *)
From Coq Require Import String.
From Radius Require Import Base.Bytes Base.Res Base.Guard Base.GoLite Gen.Src Crypto.MD5 Model.SrcRun Proofs.SrcBase Proofs.SrcCtx Spec.C04 Spec.C11 Proofs.SrcTunnel.
Open Scope list_scope.
Open Scope nat_scope.

Theorem C11_source_NewTunnelPassword : forall cx pw salt sec ra, bytes_ok pw -> bytes_ok salt -> forall n,
  16 < n -> length pw < n ->
  run cx n (fn src_NewTunnelPassword) [VBytes pw; VBytes salt; VBytes sec; VBytes ra] =
  Some (Some (ret_res (spec_new_tunnel_password md5 pw salt sec ra) VBytes VNil)).
Proof. exact src_NewTunnelPassword_spec. Qed.
Print Assumptions C11_source_NewTunnelPassword.

Theorem C11_source_TunnelPassword : forall cx n a sec ra, bytes_ok a -> 16 < n -> length a < n ->
  match spec_tunnel_password md5 a sec ra with
  | Ok (p, s) => run cx n (fn src_TunnelPassword) [VBytes a; VBytes sec; VBytes ra] = Some (Some (VTup [VBytes p; VBytes s; VNil]))
  | _ => exists s, run cx n (fn src_TunnelPassword) [VBytes a; VBytes sec; VBytes ra] = Some (Some (VTup [VNil; s; VErr]))
  end.
Proof. exact src_TunnelPassword_spec. Qed.
Print Assumptions C11_source_TunnelPassword.

(* non-vacuity: a password through the translated Tunnel-Password encoder and back *)
Example C11_src_example :
  match src_run "NewTunnelPassword" 100 [VBytes [112; 119]%N; VBytes [128; 1]%N; VBytes [115]%N; VBytes (repeat 2%N 16)] with
  | Some (Some (VTup [VBytes c; VNil])) =>
      length c = 18 /\
      src_run "TunnelPassword" 100 [VBytes c; VBytes [115]%N; VBytes (repeat 2%N 16)] =
        Some (Some (VTup [VBytes [112; 119]%N; VBytes [128; 1]%N; VNil]))
  | _ => False
  end.
Proof. vm_compute. split; reflexivity. Qed.
