(* C02 — untrusted bytes never crash or hang the decode surface.
   In the models every place where the Go code would index or slice out of range is [Panic] and every loop
   that might not end runs on fuel and yields [OutOfFuel]; [fine r] says neither is the outcome.  Tied to the
   code by the correspondence checks of C01 (Parse), C10/C04/C11 (decoders), C12/C14 (getters), C06 (server)
   and by the hostile-datagram harness of C02 (panic guard + watchdog on the real entry points, incl. debug.Dump,
   which has no Coq model). *)
From Radius Require Import Base.Bytes Base.Res Model.Attrs Model.Packet Model.Codecs Model.Passwords Model.Vendor
  Model.Helpers Model.Dispatch Proofs.PacketWire Proofs.AttrsWire Proofs.Vendor Proofs.NoPanic.
Open Scope nat_scope.

Theorem C02_parse_total : forall b s, fine (parse b s) /\ fine (parse_attrs b).
Proof. intros b s. split; [apply parse_no_panic|apply parse_attrs_no_panic]. Qed.
Print Assumptions C02_parse_total.

(* both authenticity predicates: every slice expression is in range behind the length guards *)
Theorem C02_predicates_safe : forall Hs : bytes -> bytes, (forall x, length (Hs x) = 16) -> forall response request sec,
  is_authentic_response_chk Hs response request sec = Ok (is_authentic_response Hs response request sec) /\
  is_authentic_request_chk Hs request sec = Ok (is_authentic_request Hs request sec).
Proof. exact predicates_safe. Qed.
Print Assumptions C02_predicates_safe.

(* every typed value decoder and both password decoders *)
Theorem C02_decoders_total : forall Hs : bytes -> bytes, (forall x, length (Hs x) = 16) -> forall a sec ra, bytes_ok a ->
  fine (integer a) /\ fine (short a) /\ fine (integer64 a) /\ fine (date a) /\ fine (ipaddr a) /\ fine (ipv6addr a) /\
  fine (ifid a) /\ fine (vendor_specific a) /\ fine (tlv_dec a) /\ fine (ipv6prefix a) /\
  fine (user_password Hs a sec ra) /\ fine (tunnel_password Hs a sec ra).
Proof. exact typed_decoders_total. Qed.
Print Assumptions C02_decoders_total.

(* every generated Lookup/Gets (hence Get, GetString ...) on whatever Parse accepted, for every descriptor *)
Theorem C02_getters_total_on_parsed : forall Hs : bytes -> bytes, (forall x, length (Hs x) = 16) ->
  forall b s p d q, bytes_ok b -> parse b s = Ok p -> fine (h_lookup Hs d p q) /\ fine (h_gets Hs d p q).
Proof. exact getters_total_on_parsed. Qed.
Print Assumptions C02_getters_total_on_parsed.

(* the vendor sub-attribute walk stops by its own loop condition on every payload *)
Theorem C02_vendor_walk_terminates : forall f v, length v <= f -> walk f v = subattrs v.
Proof. exact walk_fuel_irrelevant. Qed.
Print Assumptions C02_vendor_walk_terminates.

(* the server drops what the parser rejects and stays as it was; a handler only sees parsed packets *)
Theorem C02_server_drops_unparsable : forall H skip secret_of s from d, (forall sec p, parse d sec <> Ok p) ->
  dstep H skip secret_of s (DArrive from d) = (mkd (inflight s) (gs s ++ [GDropped]), ODropped).
Proof. exact unparsable_is_dropped. Qed.
Print Assumptions C02_server_drops_unparsable.
Theorem C02_handler_sees_parsed_only : forall H skip secret_of s from d r,
  snd (dstep H skip secret_of s (DArrive from d)) = ODispatched r ->
  exists sec, secret_of from = Sec sec /\ parse d sec = Ok (r_packet r).
Proof. exact handler_sees_parsed_only. Qed.
Print Assumptions C02_handler_sees_parsed_only.
