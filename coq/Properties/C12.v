(* C12 — generated helpers obey the Set/Add/Get/Gets/Lookup/Del laws, for every descriptor
   (kind x has_tag x encrypt x size x vendor), every packet and every value of the parameter's Go type.
   Model: Model/Helpers.v over Model/Vendor.v, Model/Codecs.v, Model/Passwords.v, Model/Attrs.v; tied to all
   shipped helper packages by the gendriver registry and the helper correspondence (harness C12).
   Hs is the hash; the laws are instantiated with the MD5 of Crypto/MD5.v at the end. *)
From Radius Require Import Base.Bytes Base.Res Model.Attrs Model.Packet Model.Helpers Model.Vendor
  Spec.C04 Spec.C10 Spec.C11 Proofs.Helpers Crypto.MD5.
Open Scope nat_scope.

(* after a successful Set, Lookup returns the value with its tag and Gets returns exactly [v],
   whatever the packet held before *)
Theorem C12_set_lookup : forall Hs : bytes -> bytes, (forall x, length (Hs x) = 16) ->
  forall d p p' q salt tag v,
  wfd d -> is_concat d = false -> admissible d tag v -> auth q = auth p -> length salt = 2 ->
  h_set Hs d p salt tag v = Ok p' ->
  exists tv, h_lookup Hs d p' q = Ok tv /\ h_gets Hs d p' q = Ok [tv] /\ reads_back d tag v tv.
Proof. exact set_lookup. Qed.
Print Assumptions C12_set_lookup.

Theorem C12_set_lookup_concat : forall Hs : bytes -> bytes, (forall x, length (Hs x) = 16) ->
  forall d p p' q salt tag v,
  wfd d -> is_concat d = true -> g_b v <> [] -> h_set Hs d p salt tag v = Ok p' ->
  h_lookup Hs d p' q = Ok (0%N, gv_b (g_b v)) /\ Forall (fun c => 1 <= length c <= 253) (h_raw d p').
Proof. exact set_lookup_concat. Qed.
Print Assumptions C12_set_lookup_concat.

(* Add appends: Gets returns all values in order *)
Theorem C12_add_gets : forall Hs : bytes -> bytes, (forall x, length (Hs x) = 16) ->
  forall d p p' q salt tag v xs,
  wfd d -> is_concat d = false -> admissible d tag v -> auth q = auth p -> length salt = 2 ->
  h_add Hs d p salt tag v = Ok p' -> decode_all Hs d p' q (h_raw d p) = Ok xs ->
  exists tv, h_gets Hs d p' q = Ok (xs ++ [tv]) /\ reads_back d tag v tv.
Proof. exact add_gets. Qed.
Print Assumptions C12_add_gets.

(* Del removes every occurrence *)
Theorem C12_del_lookup : forall Hs d p q,
  exists p', h_del d p = Ok p' /\ h_lookup Hs d p' q = Err E_noattr /\ h_gets Hs d p' q = Ok [].
Proof. exact del_lookup. Qed.
Print Assumptions C12_del_lookup.

(* an operation on one attribute never alters another *)
Theorem C12_set_non_interference : forall Hs d d' p p' q salt tag v, wfd d -> distinct d d' ->
  h_set Hs d p salt tag v = Ok p' ->
  h_lookup Hs d' p' q = h_lookup Hs d' p q /\ h_gets Hs d' p' q = h_gets Hs d' p q.
Proof. exact set_non_interference. Qed.
Print Assumptions C12_set_non_interference.
Theorem C12_add_non_interference : forall Hs d d' p p' q salt tag v, wfd d -> distinct d d' ->
  h_add Hs d p salt tag v = Ok p' ->
  h_lookup Hs d' p' q = h_lookup Hs d' p q /\ h_gets Hs d' p' q = h_gets Hs d' p q.
Proof. exact add_non_interference. Qed.
Print Assumptions C12_add_non_interference.
Theorem C12_del_non_interference : forall Hs d d' p q, distinct d d' ->
  exists p', h_del d p = Ok p' /\ h_lookup Hs d' p' q = h_lookup Hs d' p q /\ h_gets Hs d' p' q = h_gets Hs d' p q.
Proof. exact del_non_interference. Qed.
Print Assumptions C12_del_non_interference.

(* values survive MarshalBinary -> Parse (Encode differs from it in the authenticator field only, C03) *)
Theorem C12_wire_survives : forall Hs d p q w, on_wire d -> (0 <= code p <= 255)%Z -> length (auth p) = 16 ->
  marshal p = Ok w ->
  exists p', parse w (secret p) = Ok p' /\
    h_lookup Hs d p' q = h_lookup Hs d p q /\ h_gets Hs d p' q = h_gets Hs d p q.
Proof. exact wire_survives. Qed.
Print Assumptions C12_wire_survives.

(* setters refuse values the attribute cannot carry; a refusal is decided before the packet is
   touched (Set fails exactly when the encoder or the vendor framing refuses the value) *)
Theorem C12_set_fails_iff : forall Hs d p salt tag v, is_concat d = false ->
  (exists e, h_set Hs d p salt tag v = Err e) <->
  (exists e, h_encode Hs d p salt tag v = Err e) \/
  (exists a vid, h_encode Hs d p salt tag v = Ok a /\ h_vendor d = Some vid /\ (length a = 0 \/ 247 < length a)).
Proof. exact set_fails_iff. Qed.
Print Assumptions C12_set_fails_iff.
Theorem C12_refuses_wrong_size : forall Hs d p salt tag v n, h_kind d = KBytes -> h_size d = Some n ->
  zlen (g_b v) <> n -> h_encode Hs d p salt tag v = Err E_invalid.
Proof. exact refuses_wrong_size. Qed.
Print Assumptions C12_refuses_wrong_size.
Theorem C12_refuses_oversize : forall Hs d p salt tag v, h_kind d = KBytes -> h_enc d = 0%Z ->
  (253 < length (g_b v) \/ (h_tag d = true /\ (tag <= 31)%N /\ 252 < length (g_b v))) ->
  exists e, h_encode Hs d p salt tag v = Err e.
Proof. exact refuses_oversize. Qed.
Print Assumptions C12_refuses_oversize.
Theorem C12_refuses_wrong_family4 : forall Hs d p salt tag v, h_kind d = KIP4 -> is_v4 (g_b v) = false ->
  exists e, h_encode Hs d p salt tag v = Err e.
Proof. exact refuses_wrong_family4. Qed.
Print Assumptions C12_refuses_wrong_family4.
Theorem C12_refuses_wrong_family6 : forall Hs d p salt tag v, h_kind d = KIP6 ->
  length (g_b v) <> 4 -> length (g_b v) <> 16 -> exists e, h_encode Hs d p salt tag v = Err e.
Proof. exact refuses_wrong_family6. Qed.
Print Assumptions C12_refuses_wrong_family6.
Theorem C12_refuses_wrong_ifid : forall Hs d p salt tag v, h_kind d = KIFID -> length (g_b v) <> 8 ->
  exists e, h_encode Hs d p salt tag v = Err e.
Proof. exact refuses_wrong_ifid. Qed.
Print Assumptions C12_refuses_wrong_ifid.
Theorem C12_refuses_time_out_of_range : forall Hs d p salt tag v, h_kind d = KDate ->
  (g_u v < 0 \/ 4294967295 < g_u v)%Z -> exists e, h_encode Hs d p salt tag v = Err e.
Proof. exact refuses_time_out_of_range. Qed.
Print Assumptions C12_refuses_time_out_of_range.
Theorem C12_refuses_tagged_int_above_24_bits : forall Hs d p salt tag v n, h_kind d = KInt n -> h_tag d = true ->
  (16777215 < g_u v)%Z -> h_encode Hs d p salt tag v = Err E_invalid.
Proof. exact refuses_tagged_int_above_24_bits. Qed.
Print Assumptions C12_refuses_tagged_int_above_24_bits.

(* encrypted attributes are stored obfuscated: the packet holds the RFC hiding of the value *)
Theorem C12_stored_user_password_hidden : forall Hs : bytes -> bytes, (forall x, length (Hs x) = 16) ->
  forall d p p' salt tag v, wfd d -> h_kind d = KBytes -> h_enc d = 1%Z -> h_tag d = false ->
  h_set Hs d p salt tag v = Ok p' -> h_raw d p' = [rfc_up_encrypt Hs (secret p) (auth p) (g_b v)].
Proof. exact stored_user_password_hidden. Qed.
Print Assumptions C12_stored_user_password_hidden.
Theorem C12_stored_tunnel_password_hidden : forall Hs : bytes -> bytes, (forall x, length (Hs x) = 16) ->
  forall d p p' salt tag v, wfd d -> h_kind d = KBytes -> h_enc d = 2%Z ->
  h_set Hs d p salt tag v = Ok p' ->
  exists c, h_raw d p' = [if h_tag d && (tag <=? 31)%N then tag :: c else c] /\
            c = rfc_tp_encrypt Hs (secret p) (auth p) (forced_salt salt) (g_b v).
Proof. exact stored_tunnel_password_hidden. Qed.
Print Assumptions C12_stored_tunnel_password_hidden.

(* the laws for the real hash *)
Theorem C12_set_lookup_md5 : forall d p p' q salt tag v,
  wfd d -> is_concat d = false -> admissible d tag v -> auth q = auth p -> length salt = 2 ->
  h_set md5 d p salt tag v = Ok p' ->
  exists tv, h_lookup md5 d p' q = Ok tv /\ h_gets md5 d p' q = Ok [tv] /\ reads_back d tag v tv.
Proof. exact (set_lookup md5 md5_length). Qed.
Print Assumptions C12_set_lookup_md5.

(* where the full statement is false of the code: tags above 0x1F (finding F9) and empty concat values (F20) *)
Theorem C12_tag_above_31_refuted :
  (exists p', h_set idH ex_tagged_str ex_p [] 32 (gv_b [97; 98]%N) = Ok p' /\
              h_lookup idH ex_tagged_str p' ex_p = Ok (0%N, gv_b [97; 98]%N)) /\
  (exists p', h_set idH ex_tagged_str ex_p [] 32 (gv_b [5; 98]%N) = Ok p' /\
              h_lookup idH ex_tagged_str p' ex_p = Ok (5%N, gv_b [98]%N)) /\
  (exists p', h_set idH ex_tagged_int ex_p [] 32 (gv_u 7) = Ok p' /\
              h_lookup idH ex_tagged_int p' ex_p = Ok (0%N, gv_u 7)).
Proof. exact tag_above_31_refuted. Qed.
Print Assumptions C12_tag_above_31_refuted.
Theorem C12_concat_empty_refuted :
  exists p', h_set idH ex_concat ex_p [] 0 (gv_b []) = Ok p' /\ h_lookup idH ex_concat p' ex_p = Err E_noattr.
Proof. exact concat_empty_refuted. Qed.
Print Assumptions C12_concat_empty_refuted.
