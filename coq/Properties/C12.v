From Radius Require Import Base.Bytes Base.Res Model.Attrs Model.Packet Model.Helpers Proofs.Helpers.
Theorem C12_raw_depends_on_attributes_only : forall d p p', pattrs p = pattrs p' -> h_raw d p = h_raw d p'.
Proof. exact h_raw_attrs. Qed.
Print Assumptions C12_raw_depends_on_attributes_only.
