(* Properties/C10.v — Typed value codecs round-trip, reject the unrepresentable,
   stay in bounds.  Statements are about the wire-format oracles of Spec/C10.v
   (literal constants); C10_models_are_oracles ties every Go codec to them. *)
From Radius Require Import Base.Bytes Base.Res Model.Codecs Spec.C10 Proofs.Codecs Proofs.Prefix.
Open Scope nat_scope.

Theorem C10_models_are_oracles :
  (forall a, integer a = spec_dec_uint 4 a) /\ (forall a, short a = spec_dec_uint 2 a) /\
  (forall a, integer64 a = spec_dec_uint 8 a) /\
  (forall s, new_string s = spec_new_octets s) /\ (forall s, new_bytes s = spec_new_octets s) /\
  (forall a, ipaddr a = spec_fixed 4 a) /\ (forall ip, new_ipaddr ip = spec_new_ipaddr ip) /\
  (forall a, ipv6addr a = spec_fixed 16 a) /\ (forall ip, new_ipv6addr ip = spec_new_ipv6addr ip) /\
  (forall a, ifid a = spec_fixed 8 a) /\ (forall a, new_ifid a = spec_fixed 8 a) /\
  (forall a, date a = spec_date a) /\ (forall u, new_date u = spec_new_date u) /\
  (forall a, vendor_specific a = spec_vsa a) /\ (forall id v, new_vendor_specific id v = spec_new_vsa id v) /\
  (forall a, tlv_dec a = spec_tlv6929 a) /\ (forall t v, new_tlv t v = spec_new_tlv t v) /\
  (forall ip mask, bytes_ok mask -> new_ipv6prefix ip mask = spec_new_ipv6prefix ip mask) /\
  (forall a, bytes_ok a -> ipv6prefix a = spec_ipv6prefix a).
Proof.
  repeat split; intros;
    first [apply integer_eq|apply short_eq|apply integer64_eq|apply new_string_eq|apply new_bytes_eq|
     apply ipaddr_eq|apply new_ipaddr_eq|apply ipv6addr_eq|apply new_ipv6addr_eq|apply ifid_eq|
     apply new_ifid_eq|apply date_eq|apply new_date_eq|apply vendor_specific_eq|
     apply new_vendor_specific_eq|apply tlv_dec_eq|apply new_tlv_eq|
     (apply new_ipv6prefix_eq; assumption)|(apply ipv6prefix_eq; assumption)].
Qed.

(* integers of k = 2, 4, 8 bytes: every value of the Go type round-trips; the
   decoder accepts exactly k-byte strings and decode/encode is the identity on them *)
Theorem C10_uint : forall k,
  (forall i, (i < 256 ^ N.of_nat k)%N ->
     spec_dec_uint k (spec_enc_uint k i) = Ok i /\ length (spec_enc_uint k i) = k /\ bytes_ok (spec_enc_uint k i)) /\
  (forall a, (exists i, spec_dec_uint k a = Ok i) <-> length a = k) /\
  (forall a i, bytes_ok a -> spec_dec_uint k a = Ok i -> spec_enc_uint k i = a).
Proof. intros k; repeat split; intros; try (eapply uint_roundtrip; eassumption);
  [apply uint_decode_exact; assumption|apply uint_decode_exact; assumption|eapply uint_decode_encode; eassumption]. Qed.

Theorem C10_octets : forall s,
  (length s <= 253 -> spec_new_octets s = Ok s) /\ (253 < length s <-> exists e, spec_new_octets s = Err e).
Proof. intros; split; [apply octets_roundtrip|apply octets_refuses]. Qed.

Theorem C10_ipaddr : forall ip,
  (forall a, spec_new_ipaddr ip = Ok a -> spec_fixed 4 a = Ok a /\ ip_equal ip a /\ length a = 4) /\
  (is_v4 ip = false <-> exists e, spec_new_ipaddr ip = Err e).
Proof. intros; split; [intros; apply ipaddr_roundtrip; assumption|apply ipaddr_refuses]. Qed.
Theorem C10_ipv6addr : forall ip,
  (forall a, spec_new_ipv6addr ip = Ok a -> spec_fixed 16 a = Ok a /\ ip_equal ip a /\ length a = 16) /\
  ((length ip <> 4 /\ length ip <> 16) <-> exists e, spec_new_ipv6addr ip = Err e).
Proof. intros; split; [intros; apply ipv6addr_roundtrip; assumption|apply ipv6addr_refuses]. Qed.
Theorem C10_fixed_decoders_exact : forall k a, (exists b, spec_fixed k a = Ok b) <-> length a = k.
Proof. exact fixed_exact. Qed.

Theorem C10_date : forall u,
  ((0 <= u <= 4294967295)%Z -> exists a, spec_new_date u = Ok a /\ spec_date a = Ok u /\ length a = 4) /\
  ((u < 0 \/ 4294967295 < u)%Z <-> exists e, spec_new_date u = Err e).
Proof. intros; split; [apply date_roundtrip|apply date_refuses]. Qed.

Theorem C10_vsa : forall id v,
  ((id < 4294967296)%N -> 1 <= length v <= 249 ->
     exists a, spec_new_vsa id v = Ok a /\ spec_vsa a = Ok (id, v) /\ length a <= 253) /\
  ((length v = 0 \/ 249 < length v) <-> exists e, spec_new_vsa id v = Err e).
Proof. intros; split; [apply vsa_roundtrip|apply vsa_refuses]. Qed.
Theorem C10_vsa_decoder : forall a,
  ((exists r, spec_vsa a = Ok r) <-> 5 <= length a) /\
  (forall id v, bytes_ok a -> spec_vsa a = Ok (id, v) -> length a <= 253 -> spec_new_vsa id v = Ok a).
Proof. intros; split; [apply vsa_decode_exact|intros; apply vsa_decode_encode; assumption]. Qed.

Theorem C10_tlv : forall t v,
  (1 <= length v <= 253 -> exists a, spec_new_tlv t v = Ok a /\ spec_tlv6929 a = Ok (t, v) /\ length a <= 255) /\
  ((length v = 0 \/ 253 < length v) <-> exists e, spec_new_tlv t v = Err e).
Proof. intros; split; [apply tlv_roundtrip|apply tlv_refuses]. Qed.
Theorem C10_tlv_decoder : forall a,
  ((exists r, spec_tlv6929 a = Ok r) <-> 3 <= length a <= 255 /\ exists t l v, a = t :: l :: v /\ N.to_nat l = length a) /\
  (forall t v, spec_tlv6929 a = Ok (t, v) -> spec_new_tlv t v = Ok a).
Proof. intros; split; [apply tlv_decode_exact|intros; apply tlv_decode_encode; assumption]. Qed.

(* IPv6 prefix: encoded prefixes decode to the address with host bits cleared and
   the canonical mask; non-IPv6 addresses, 4-byte and non-contiguous masks are refused *)
Theorem C10_ipv6prefix_roundtrip : forall ip mask a, bytes_ok ip ->
  spec_new_ipv6prefix ip mask = Ok a ->
  exists ones, spec_mask_ones mask = Some ones /\ length ip = 16 /\ length mask = 16 /\
    length a = 2 + (ones + 7) / 8 /\ length a <= 18 /\
    spec_ipv6prefix a = Ok (apply_mask ip ones, mask_of ones 16).
Proof. exact ipv6prefix_roundtrip. Qed.
Theorem C10_ipv6prefix_refuses : forall ip mask,
  (length ip <> 16 \/ length mask <> 16 \/ spec_mask_ones mask = None) <->
  exists e, spec_new_ipv6prefix ip mask = Err e.
Proof. exact ipv6prefix_refuses. Qed.
Theorem C10_ipv6prefix_decoder_exact : forall a,
  (exists r, spec_ipv6prefix a = Ok r) <->
  exists r0 pl data, a = r0 :: pl :: data /\ length data <= 16 /\ (pl <= 128)%N /\
    let ip := data ++ repeat 0%N (16 - length data) in apply_mask ip (N.to_nat pl) = ip.
Proof. exact ipv6prefix_decode_exact. Qed.

Example C10_example :
  spec_new_date (-1) = Err E_invalid /\ spec_new_date 4294967296 = Err E_invalid /\
  spec_new_vsa 9 [] = Err E_invalid /\
  spec_new_ipv6prefix (repeat 255%N 16) ([255; 255; 248]%N ++ repeat 0%N 13) = Ok [0; 21; 255; 255; 248]%N /\
  spec_ipv6prefix [0; 21; 255; 255; 248]%N = Ok ([255; 255; 248]%N ++ repeat 0%N 13, [255; 255; 248]%N ++ repeat 0%N 13) /\
  spec_ipv6prefix [0; 21; 255; 255; 252]%N = Err E_invalid /\
  spec_new_ipv6prefix (repeat 255%N 16) ([255; 0; 255]%N ++ repeat 0%N 13) = Err E_invalid.
Proof. vm_compute. repeat split. Qed.

Print Assumptions C10_models_are_oracles.
Print Assumptions C10_uint.
Print Assumptions C10_octets.
Print Assumptions C10_ipaddr.
Print Assumptions C10_ipv6addr.
Print Assumptions C10_fixed_decoders_exact.
Print Assumptions C10_date.
Print Assumptions C10_vsa.
Print Assumptions C10_vsa_decoder.
Print Assumptions C10_tlv.
Print Assumptions C10_tlv_decoder.
Print Assumptions C10_ipv6prefix_roundtrip.
Print Assumptions C10_ipv6prefix_refuses.
Print Assumptions C10_ipv6prefix_decoder_exact.
