(* Properties/C16.v — Dictionary parser accepts exactly the language and records
   what was declared.  PARTIAL: the statement is decomposed into theorems about
   the lexical layer (layout never matters), numerals (exact acceptance), the
   per-directive state rules (recording order, vendor attachment, every rejection
   class), each proved for all inputs; the file-level "parse (print ds) = denote
   ds" composition is checked by the correspondence runs, not proved.  ASCII
   white space / letters only (see Model/Dict.v). *)
From Coq Require Import String Ascii.
From Radius Require Import Base.Bytes Base.Res Model.Dict Spec.C16 Proofs.DictLang.
Open Scope list_scope.
Open Scope nat_scope.

(* layout: spacing, indentation, trailing blanks and comments never change the tokens seen *)
Theorem C16_layout_insensitive : forall toks seps lead trail comment,
  Forall is_token toks -> Forall (fun s => is_ws s /\ s <> []) seps -> is_ws lead -> is_ws trail ->
  fields (strip_comment (with_comment (render lead toks seps trail) comment)) = toks.
Proof. exact line_tokens. Qed.
Theorem C16_blank_lines_skipped : forall w comment, is_ws w -> classify_line (with_comment w comment) = LSkip.
Proof. exact blank_lines_skipped. Qed.
(* directive dispatch: keyword and field count decide, nothing else *)
Theorem C16_classify_by_tokens : forall toks seps lead trail comment,
  Forall is_token toks -> Forall (fun s => is_ws s /\ s <> []) seps -> is_ws lead -> is_ws trail -> toks <> [] ->
  classify_line (with_comment (render lead toks seps trail) comment) =
  match toks with
  | [k; a; b; c] =>
    if beq k (s2b "ATTRIBUTE") then LAttr a b c None
    else if beq k (s2b "VALUE") then LValue a b c
    else if beq k (s2b "VENDOR") then LVendor a b (Some c) else LUnknown
  | [k; a; b; c; e] => if beq k (s2b "ATTRIBUTE") then LAttr a b c (Some e) else LUnknown
  | [k; a; b] => if beq k (s2b "VENDOR") then LVendor a b None else LUnknown
  | [k; a] =>
    if beq k (s2b "BEGIN-VENDOR") then LBegin a else if beq k (s2b "END-VENDOR") then LEnd a
    else if beq k (s2b "$INCLUDE") then LInclude a else LUnknown
  | _ => LUnknown
  end.
Proof. exact classify_by_tokens. Qed.

(* numerals: exactly the digit strings in range *)
Theorem C16_value_decimal_iff : forall s v,
  parse_uint32 10 s = Some v <-> s <> [] /\ all_dec s = true /\ dec_value s = v /\ (v < 4294967296)%Z.
Proof. exact parse_uint32_dec_iff. Qed.
Theorem C16_value_hex_iff : forall s v,
  parse_uint32 16 s = Some v <-> s <> [] /\ forallb is_hex s = true /\ hex_value s = v /\ (v < 4294967296)%Z.
Proof. exact parse_uint32_hex_iff. Qed.
Theorem C16_int32_unsigned_iff : forall b r v, b <> 43%N -> b <> 45%N ->
  (parse_int32 (b :: r) = Some v <-> all_dec (b :: r) = true /\ dec_value (b :: r) = v /\ (v < 2147483648)%Z).
Proof. exact parse_int32_unsigned. Qed.
Theorem C16_non_numeric_rejected : forall s,
  s = [] \/ (all_dec s = false /\ all_dec (skipn 1 s) = false) -> parse_int32 s = None.
Proof. exact parse_int32_rejects_non_numeric. Qed.

(* recording: declaration order, scope of the open vendor block *)
Theorem C16_recorded_in_order : forall ign d,
  (forall f1 f2 f3 f4 a, parse_attribute f1 f2 f3 f4 = Ok a -> attr_by_name (d_attrs d) (a_name a) = None ->
     apply_simple ign d None (LAttr f1 f2 f3 f4) = Ok (mkdict (d_attrs d ++ [a]) (d_values d) (d_vendors d), None)) /\
  (forall i v f1 f2 f3 f4 a, parse_attribute f1 f2 f3 f4 = Ok a -> nth_error (d_vendors d) i = Some v ->
     attr_by_name (vn_attrs v) (a_name a) = None ->
     apply_simple ign d (Some i) (LAttr f1 f2 f3 f4) =
     Ok (mkdict (d_attrs d) (d_values d)
           (update_at i (mkvendor (vn_name v) (vn_number v) (vn_format v) (vn_attrs v ++ [a]) (vn_values v)) (d_vendors d)), Some i)) /\
  (forall f1 f2 f3 v, parse_value f1 f2 f3 = Ok v ->
     apply_simple ign d None (LValue f1 f2 f3) = Ok (mkdict (d_attrs d) (d_values d ++ [v]) (d_vendors d), None)) /\
  (forall vb f1 f2 f3 v, parse_vendor f1 f2 f3 = Ok v ->
     vendor_by_name_or_number (d_vendors d) (vn_name v) (vn_number v) = false ->
     apply_simple ign d vb (LVendor f1 f2 f3) = Ok (mkdict (d_attrs d) (d_values d) (d_vendors d ++ [v]), vb)).
Proof.
  intros ign d. repeat split; intros;
    first [apply attribute_recorded; assumption|apply vendor_attribute_recorded; assumption
          |apply value_recorded; assumption|apply vendor_recorded; assumption].
Qed.

(* every rejection class of the statement *)
Theorem C16_rejections : forall ign d,
  (forall f1 f2 f3 f4 a ex, parse_attribute f1 f2 f3 f4 = Ok a -> attr_by_name (d_attrs d) (a_name a) = Some ex ->
     ign && attr_equals a ex = false -> apply_simple ign d None (LAttr f1 f2 f3 f4) = Err PE_dupattr) /\
  (forall vb f1 f2 f3 v, parse_vendor f1 f2 f3 = Ok v ->
     vendor_by_name_or_number (d_vendors d) (vn_name v) (vn_number v) = true ->
     apply_simple ign d vb (LVendor f1 f2 f3) = Err PE_dupvendor) /\
  (forall n, vendor_index_by_name (d_vendors d) n 0 = None -> apply_simple ign d None (LBegin n) = Err PE_unkvendor) /\
  (forall i n, apply_simple ign d (Some i) (LBegin n) = Err PE_nested) /\
  (forall n, apply_simple ign d None (LEnd n) = Err PE_unmatched) /\
  (forall i v n, nth_error (d_vendors d) i = Some v -> beq (vn_name v) n = false ->
     apply_simple ign d (Some i) (LEnd n) = Err PE_badend) /\
  (forall vb, apply_simple ign d vb LUnknown = Err PE_unkline) /\
  (forall opener recur path fname lineNo i tr,
     parse_lines ign opener recur path fname [] lineNo (Some i) d tr = (PFail (ParseErr PE_unclosed fname (lineNo - 1)), tr)).
Proof.
  intros ign d. repeat split; intros;
    first [eapply duplicate_attribute_rejected; eassumption|eapply duplicate_vendor_rejected; eassumption
          |apply unknown_vendor_rejected; assumption|apply nested_block_rejected|apply unmatched_end_rejected
          |eapply mismatched_end_rejected; eassumption|apply unknown_line_rejected|apply unclosed_block_rejected].
Qed.
Theorem C16_bad_tokens_rejected :
  (forall f a r, has_prefix (s2b "encrypt=") f = false -> beq f (s2b "has_tag") = false ->
     beq f (s2b "concat") = false -> apply_flags (f :: r) a = Err PE_flag) /\
  (forall a r, a_has_tag a = true -> apply_flags (s2b "has_tag" :: r) a = Err PE_dupflag) /\
  (forall a r, a_concat a = true -> apply_flags (s2b "concat" :: r) a = Err PE_dupflag) /\
  (forall f1 f2 f3, (if has_prefix (s2b "0x") f3 then parse_uint32 16 (skipn 2 f3) else parse_uint32 10 f3) = None ->
     parse_value f1 f2 f3 = Err PE_valnum) /\
  (forall f1 f2 f3, parse_int32 f2 = None -> parse_vendor f1 f2 f3 = Err PE_vendnum) /\
  (forall f1 f2 f3 f4, parse_oid f2 = [] -> parse_attribute f1 f2 f3 f4 = Err PE_oid).
Proof.
  repeat split; intros;
    first [apply unknown_flag_rejected; assumption|apply repeated_has_tag_rejected; assumption
          |apply repeated_concat_rejected; assumption|apply bad_value_number_rejected; assumption
          |apply bad_vendor_number_rejected; assumption|apply bad_oid_rejected; assumption].
Qed.

Open Scope string_scope.
Example C16_example :
  fst (parse_root false (fun _ => None) 3 (s2b "d") (s2b "  # indented comment
VENDOR   Acme	9   format=1,1
BEGIN-VENDOR Acme
ATTRIBUTE  Acme-X  1.2  OcTeTs[4]  has_tag,encrypt=2  # note
VALUE Acme-X on 0x1F
END-VENDOR Acme
   
ATTRIBUTE Plain 7 integer")) =
  POk (mkdict [mkattr (s2b "Plain") [7%Z] 5 None None false false] []
         [mkvendor (s2b "Acme") 9 (Some (1, 1)%Z)
            [mkattr (s2b "Acme-X") [1; 2]%Z 2 (Some 4%Z) (Some 2%Z) true false] [mkvalue (s2b "Acme-X") (s2b "on") 31]])
  /\ fst (parse_root false (fun _ => None) 3 (s2b "d") (s2b "VENDOR A 1 format=1,7")) = PFail (ParseErr PE_vendfmt (s2b "d") 1).
Proof. vm_compute. split; reflexivity. Qed.

Print Assumptions C16_layout_insensitive.
Print Assumptions C16_blank_lines_skipped.
Print Assumptions C16_classify_by_tokens.
Print Assumptions C16_value_decimal_iff.
Print Assumptions C16_value_hex_iff.
Print Assumptions C16_int32_unsigned_iff.
Print Assumptions C16_non_numeric_rejected.
Print Assumptions C16_recorded_in_order.
Print Assumptions C16_rejections.
Print Assumptions C16_bad_tokens_rejected.
