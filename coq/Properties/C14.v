(* C14 — vendor-specific helpers are total and exact on arbitrary packets.
   Model: Model/Vendor.v (dictionarygen/vendor.go templates), tied to the 4 shipped vendor packages and rfc4679
   by the helper correspondence (harness C14: hostile payloads, watchdog). *)
From Radius Require Import Base.Bytes Base.Res Model.Attrs Model.Codecs Model.Vendor Proofs.Vendor.
Open Scope nat_scope.

(* the walker terminates by its own loop condition and returns the unique split of a payload
   into well-formed sub-attributes and a remainder it cannot step on *)
Theorem C14_walker_exact : forall payload,
  Forall wf_sub (fst (subattrs payload)) /\ stuck (snd (subattrs payload)) /\
  payload = flat_map snd (fst (subattrs payload)) ++ snd (subattrs payload).
Proof. exact subattrs_spec. Qed.
Print Assumptions C14_walker_exact.

Theorem C14_walker_unique : forall payload subs rest, Forall wf_sub subs -> stuck rest ->
  payload = flat_map snd subs ++ rest -> subattrs payload = (subs, rest).
Proof. exact subattrs_unique. Qed.
Print Assumptions C14_walker_unique.

Theorem C14_walker_fuel_irrelevant : forall f v, length v <= f -> walk f v = subattrs v.
Proof. exact walk_fuel_irrelevant. Qed.
Print Assumptions C14_walker_fuel_irrelevant.

(* Gets returns exactly the matching sub-attributes of that vendor, in packet order; Lookup the first *)
Theorem C14_gets_exact : forall vid typ l, gets_vendor vid typ l = flat_map (gets_one vid typ) l.
Proof. exact gets_vendor_eq. Qed.
Print Assumptions C14_gets_exact.

Theorem C14_gets_one_exact : forall vid typ a payload subs rest, vsa_payload vid a = Some payload ->
  Forall wf_sub subs -> stuck rest -> payload = flat_map snd subs ++ rest ->
  gets_one vid typ a = values_of typ subs.
Proof. exact gets_one_exact. Qed.
Print Assumptions C14_gets_one_exact.

Theorem C14_lookup_first : forall vid typ l,
  lookup_vendor vid typ l = match gets_vendor vid typ l with v :: _ => Some v | [] => None end.
Proof. exact lookup_is_first_gets. Qed.
Print Assumptions C14_lookup_first.

(* Add appends one well-formed Vendor-Specific attribute *)
Theorem C14_add_appends_wellformed : forall vid typ a l l', (vid < 4294967296)%N -> add_vendor vid typ a l = Ok l' ->
  l' = l ++ [new_vsa_attr vid typ a] /\
  vsa_payload vid (new_vsa_attr vid typ a) = Some (vendor_tlv typ a) /\
  subattrs (vendor_tlv typ a) = ([(typ, vendor_tlv typ a)], []) /\
  length (aval (new_vsa_attr vid typ a)) <= 253.
Proof. exact add_vendor_appends. Qed.
Print Assumptions C14_add_appends_wellformed.

Theorem C14_add_gets : forall vid typ a l l', (vid < 4294967296)%N -> forall vid' typ', add_vendor vid typ a l = Ok l' ->
  gets_vendor vid' typ' l' = gets_vendor vid' typ' l ++ (if (vid' =? vid)%N && (typ' =? typ)%N then [a] else []).
Proof. exact add_vendor_gets. Qed.
Print Assumptions C14_add_gets.

(* Set leaves exactly one occurrence holding the new value; other (vendor, type) pairs see no change *)
Theorem C14_set_exactly_one : forall vid typ a l l', (vid < 4294967296)%N -> forall vid' typ', set_vendor vid typ a l = Ok l' ->
  gets_vendor vid' typ' l' = if (vid' =? vid)%N && (typ' =? typ)%N then [a] else gets_vendor vid' typ' l.
Proof. exact set_vendor_gets. Qed.
Print Assumptions C14_set_exactly_one.

(* Del removes every occurrence; other (vendor, type) pairs see no change *)
Theorem C14_del_removes_all : forall vid typ vid' typ' l,
  gets_vendor vid' typ' (del_vendor vid typ l) = if (vid' =? vid)%N && (typ' =? typ)%N then [] else gets_vendor vid' typ' l.
Proof. exact gets_del_vendor. Qed.
Print Assumptions C14_del_removes_all.

(* Set and Del preserve, byte for byte and in order, every other attribute and every other
   sub-attribute (and the unparsed remainders), and leave no empty Vendor-Specific attribute *)
Theorem C14_del_preserves_rest : forall vid typ l, flat_map (view vid typ) (del_vendor vid typ l) = flat_map (view vid typ) l.
Proof. exact del_vendor_view. Qed.
Print Assumptions C14_del_preserves_rest.

Theorem C14_set_preserves_rest : forall vid typ a l l', (vid < 4294967296)%N -> set_vendor vid typ a l = Ok l' ->
  flat_map (view vid typ) l' = flat_map (view vid typ) l.
Proof. exact set_vendor_view. Qed.
Print Assumptions C14_set_preserves_rest.

Theorem C14_del_keeps_foreign_attributes : forall vid typ l, filter (foreign vid) (del_vendor vid typ l) = filter (foreign vid) l.
Proof. exact del_vendor_foreign. Qed.
Print Assumptions C14_del_keeps_foreign_attributes.

Theorem C14_no_empty_vsa : forall vid l a pl, In a l -> vsa_payload vid a = Some pl -> pl <> [].
Proof. exact no_empty_vsa. Qed.
Print Assumptions C14_no_empty_vsa.

(* failure is decided by the value alone (the packet is not touched before), and is exactly: empty or > 247 bytes *)
Theorem C14_set_refuses_exactly : forall vid typ a l,
  set_vendor vid typ a l = if (1 <=? length a) && (length a <=? 247)
                           then Ok (del_vendor vid typ l ++ [new_vsa_attr vid typ a]) else Err E_invalid.
Proof. exact set_vendor_ok. Qed.
Print Assumptions C14_set_refuses_exactly.

Theorem C14_total : forall vid typ a l,
  add_vendor vid typ a l <> Panic /\ add_vendor vid typ a l <> OutOfFuel /\
  set_vendor vid typ a l <> Panic /\ set_vendor vid typ a l <> OutOfFuel.
Proof. exact vendor_total. Qed.
Print Assumptions C14_total.
