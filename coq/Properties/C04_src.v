(* Properties/C04_src.v — NewUserPassword and UserPassword as written compute RFC 2865 s5.2 (Spec/C04.v with H = MD5), for all plaintexts, ciphertexts, secrets and authenticators.
   Statements about the translation of the Go source itself (Gen/Src.v, regenerated from
   /repo on every run by srcfacts/golite.go) under the interpreter of Base/GoLite.v.  [fn t] is the
   translated function, or a function that panics at once when the translator refused it. *)
From Coq Require Import String.
From Radius Require Import Base.Bytes Base.Res Base.Guard Base.GoLite Gen.Src Crypto.MD5 Model.SrcRun Proofs.SrcBase Proofs.SrcCtx Spec.C04 Proofs.SrcPassword.
Open Scope list_scope.
Open Scope nat_scope.

Theorem C04_source_NewUserPassword : forall cx p sec ra, bytes_ok p -> forall n,
  16 < n -> length p < n ->
  run cx n (fn src_NewUserPassword) [VBytes p; VBytes sec; VBytes ra] =
  Some (Some (ret_res (spec_new_user_password md5 p sec ra) VBytes VNil)).
Proof. exact src_NewUserPassword_spec. Qed.
Print Assumptions C04_source_NewUserPassword.

Theorem C04_source_UserPassword : forall cx a sec ra, bytes_ok a -> forall n,
  16 < n -> length a < n ->
  run cx n (fn src_UserPassword) [VBytes a; VBytes sec; VBytes ra] =
  Some (Some (ret_res (spec_user_password md5 a sec ra) VBytes VNil)).
Proof. exact src_UserPassword_spec. Qed.
Print Assumptions C04_source_UserPassword.

(* non-vacuity: a 17-byte password (two blocks) through the translated encoder and back *)
Example C04_src_example :
  match src_run "NewUserPassword" 100 [VBytes (repeat 65%N 17); VBytes [115; 101; 99]%N; VBytes (repeat 1%N 16)] with
  | Some (Some (VTup [VBytes c; VNil])) =>
      length c = 32 /\
      src_run "UserPassword" 100 [VBytes c; VBytes [115; 101; 99]%N; VBytes (repeat 1%N 16)] = Some (Some (VTup [VBytes (repeat 65%N 17); VNil]))
  | _ => False
  end.
Proof. vm_compute. split; reflexivity. Qed.
