(* C17 — generator output has the documented API shape and is canonical.
   Model: Model/Gen.v, the decision layer of dictionarygen.Generate (validation loops, sorts, value
   handling, emission order and signatures), tied to the code by the m.gen correspondence on random
   and shipped dictionaries; "compiles" and "gofmt-formatted" are decided on the real output by
   go/types and go/format on every run (harness C17), not in Coq. *)
From Radius Require Import Base.Bytes Base.Res Model.Gen Proofs.Gen.
From Coq Require Import Permutation.
Open Scope Z_scope.

(* Generate refines a declarative specification: it succeeds exactly on the accepted dictionaries,
   then emits exactly [output]; otherwise it returns an error; it never panics *)
Theorem C17_generate_refines_spec : forall o d,
  match gen o d with
  | Ok ds => accepts o d /\ ds = output o d
  | Err _ => ~ accepts o d
  | _ => False
  end.
Proof. exact gen_refines. Qed.
Print Assumptions C17_generate_refines_spec.

(* one function family per attribute kind *)
Theorem C17_api_function_families : forall a vals, valid a ->
  fnames (funcs a vals) =
  if is_str (ga_type a) then
    if is_concat a then [FGet; FGetString; FLookup; FLookupString; FSet; FSetString; FDel]
    else [FAdd; FAddString; FGet; FGetString; FGets; FGetStrings; FLookup; FLookupString; FSet; FSetString; FDel]
  else if ga_type a =? T_vsa then []
  else [FAdd; FGet; FGets; FLookup; FSet; FDel].
Proof. exact funcs_names. Qed.
Print Assumptions C17_api_function_families.

(* a tag parameter exactly when tagged, a request-packet parameter exactly when salt-encrypted *)
Theorem C17_api_parameters : forall a vals id f tg q vt, valid a -> In (DFunc id f tg q vt) (funcs a vals) ->
  id = ga_ident a /\ tg = (has_tag a && negb (is_del f)) /\ q = (salted a && is_getter f).
Proof. exact funcs_flags. Qed.
Print Assumptions C17_api_parameters.

(* nothing at all for attributes on the ignore list: the result is that of the dictionary without them *)
Theorem C17_ignored_leave_no_trace : forall o d,
  (accepts o d <-> accepts (mkgopts [] (go_ext o)) (strip (go_ignore o) d)) /\
  output o d = output (mkgopts [] (go_ext o)) (strip (go_ignore o) d).
Proof. exact ignored_leave_no_trace. Qed.
Print Assumptions C17_ignored_leave_no_trace.

(* the order in which attributes, values, vendors and their members are declared does not change the output *)
Theorem C17_order_independent : forall o d d', accepts o d -> distinct_keys o d -> dict_perm d d' ->
  accepts o d' /\ output o d' = output o d.
Proof. exact order_independent. Qed.
Print Assumptions C17_order_independent.

(* sort.Stable with a strict order yields the unique sorted permutation *)
Theorem C17_sort_canonical : forall (A : Type) (lt : A -> A -> bool),
  (forall x y, lt x y = true -> lt y x = false) ->
  (forall x y z, lt z x = true -> lt x y = true -> lt z y = true) ->
  forall l l', Permutation l l' ->
  (forall x y, In x l -> In y l -> lt x y = false -> lt y x = false -> x = y) -> sort lt l = sort lt l'.
Proof. exact @sort_of_permutation. Qed.
Print Assumptions C17_sort_canonical.

Theorem C17_example : accepts ex_o ex_d /\ distinct_keys ex_o ex_d /\ dict_perm ex_d ex_d'.
Proof. exact ex_accepted. Qed.
Print Assumptions C17_example.

(* named value constants: each comes from a VALUE line of that attribute, every declared number gets one, none twice *)
Theorem C17_value_constants : forall a vals,
  let vs := values_of_attr a (sort value_lt vals) in
  (forall w, In w vs -> In w vals /\ gl_attr w = ga_name a) /\
  (forall v, In v vals -> gl_attr v = ga_name a -> exists w, In w vs /\ gl_num w = gl_num v) /\
  NoDup (map gl_num vs).
Proof. exact value_constants. Qed.
Print Assumptions C17_value_constants.
