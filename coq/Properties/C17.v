From Radius Require Import Base.Bytes Base.Res Model.Gen.
Theorem C17_gen_is_a_function : forall o d r1 r2, gen o d = r1 -> gen o d = r2 -> r1 = r2.
Proof. intros; congruence. Qed.
Print Assumptions C17_gen_is_a_function.
