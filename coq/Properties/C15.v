(* Properties/C15.v — Dictionary parser terminates on every text and include
   graph; cycles reported.  The theorems hold for every Opener (a function from
   requested names to canonical name + contents) and every text; the lexical
   layer is whatever Model/Dict.v's classify_line computes (its ASCII
   restriction does not matter here: nothing below depends on how a line is
   classified). *)
From Radius Require Import Base.Bytes Base.Res Model.Dict Proofs.DictInclude.
Open Scope nat_scope.

Section P.
Variable ign : bool.
Variable opener : str -> option (str * bytes).

(* termination: with as much fuel (nesting depth) as there are distinct file
   names the opener can deliver, plus one, the parser always returns *)
Theorem C15_parse_total : forall universe,
  (forall n cn body, opener n = Some (cn, body) -> In cn universe) ->
  forall fname text, fst (parse_root ign opener (S (length universe)) fname text) <> PFuel.
Proof. intros universe Hu. exact (parse_total ign opener universe Hu). Qed.

(* an $INCLUDE of a file that is on the include path - whether or not the cycle
   passes through the root - is reported as RecursiveInclude at that line *)
Theorem C15_cycle_reported : forall recur path fname l rest lineNo d tr n cn body,
  too_long l = false -> classify_line l = LInclude n -> opener n = Some (cn, body) -> In cn path ->
  parse_lines ign opener recur path fname (l :: rest) lineNo None d tr =
  (PFail (ParseErr PE_recursive fname lineNo), tr ++ [EvOpen cn] ++ [EvClose cn]).
Proof. exact (cycle_step_reported ign opener). Qed.

(* acyclic graphs, incl. diamonds and repeated includes of one file, are never reported *)
Theorem C15_acyclic_not_reported : forall rank,
  (forall n cn body n' cn' body', opener n = Some (cn, body) -> includes body n' ->
     opener n' = Some (cn', body') -> rank cn' < rank cn) ->
  forall fuel fname text,
  (forall n cn body, includes text n -> opener n = Some (cn, body) -> rank cn < rank fname) ->
  ~ is_recursive (parse_root ign opener fuel fname text).
Proof. intros rank Hr. exact (acyclic_not_reported ign opener rank Hr). Qed.

(* every file opened for an include is closed, innermost first, on every outcome *)
Theorem C15_opens_closed : forall fuel fname text,
  fst (parse_root ign opener fuel fname text) <> PFuel ->
  replay [] (snd (parse_root ign opener fuel fname text)) = Some [].
Proof. exact (opens_closed ign opener). Qed.

(* a ParseError names the file being parsed and a line number within it *)
Theorem C15_error_position : forall fuel fname text c f l,
  fst (parse_root ign opener (S fuel) fname text) = PFail (ParseErr c f l) ->
  (f = fname /\ 0 <= l <= 1 + length (scan_lines text)) \/
  (exists p cn body d tr, fst (parse_file ign opener fuel p cn body d tr) = PFail (ParseErr c f l)).
Proof. exact (error_position_root ign opener). Qed.
Theorem C15_error_position_loop : forall recur ls path fname lineNo vb d tr,
  1 <= lineNo ->
  (forall p cn body d' tr', match fst (recur p cn body d' tr') with PFail (ParseErr _ _ _) => False | _ => True end) ->
  err_here fname (lineNo - 1) (lineNo + length ls) (parse_lines ign opener recur path fname ls lineNo vb d tr).
Proof. exact (plines_error_position ign opener). Qed.
End P.

From Coq Require Import String.
Open Scope string_scope.
(* non-vacuity: root -> a -> b -> a is reported (the cycle does not pass through
   the root), a diamond is not, and the trace closes everything *)
Definition ex_opener (n : str) : option (str * bytes) :=
  if beq n (s2b "a") then Some (s2b "a", s2b "ATTRIBUTE A 1 string
$INCLUDE b
") else if beq n (s2b "b") then Some (s2b "b", s2b "$INCLUDE a
") else if beq n (s2b "c") then Some (s2b "c", s2b "VENDOR V 9
") else if beq n (s2b "d1") then Some (s2b "d1", s2b "$INCLUDE c
") else if beq n (s2b "d2") then Some (s2b "d2", s2b "$INCLUDE c
") else None.
Example C15_example :
  fst (parse_root false ex_opener 10 (s2b "root") (s2b "$INCLUDE a
")) = PFail (ParseErr PE_recursive (s2b "b") 1) /\
  replay [] (snd (parse_root false ex_opener 10 (s2b "root") (s2b "$INCLUDE a
"))) = Some [] /\
  fst (parse_root true ex_opener 10 (s2b "root") (s2b "$INCLUDE d1
$INCLUDE d2
")) = PFail (ParseErr PE_dupvendor (s2b "c") 1).
Proof. vm_compute. repeat split. Qed.

Print Assumptions C15_parse_total.
Print Assumptions C15_cycle_reported.
Print Assumptions C15_acyclic_not_reported.
Print Assumptions C15_opens_closed.
Print Assumptions C15_error_position.
Print Assumptions C15_error_position_loop.
