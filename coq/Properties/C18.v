(* C18 — shipped generated code is the generator's output for the shipped dictionaries. *)
From Coq Require Import List String.
From Radius Require Import Gen.Shipped Proofs.Shipped.
Import ListNotations.
Open Scope string_scope.

Theorem C18_shipped_is_generated : forall p, In p packages ->
  sp_checked_in p = sp_generated p /\ is_error (sp_generated p) = false.
Proof. exact shipped_is_generated. Qed.
Print Assumptions C18_shipped_is_generated.

Theorem C18_the_set_is_complete : List.length packages = 33 /\
  existsb (fun p => String.eqb (sp_name p) "debug") packages = true /\
  Nat.leb 3000 (fold_right (fun p n => List.length (sp_checked_in p) + n) 0 packages) = true.
Proof. exact shipped_set. Qed.
Print Assumptions C18_the_set_is_complete.
