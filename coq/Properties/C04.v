(* Properties/C04.v — User-Password hiding conforms to RFC 2865 s5.2 and
   round-trips; for every hash H with 16-byte output (MD5 is one). *)
From Radius Require Import Base.Bytes Base.Res Model.Passwords Spec.C04 Proofs.UserPassword Crypto.MD5.
Open Scope nat_scope.

Section S.
Variable H : bytes -> bytes.
Hypothesis H_len : forall x, length (H x) = 16.

Theorem C04_new_user_password_is_rfc : forall pt sec ra,
  length pt <= 128 -> sec <> [] -> length ra = 16 ->
  new_user_password H pt sec ra = Ok (rfc_up_encrypt H sec ra pt).
Proof. exact (new_user_password_is_rfc H H_len). Qed.
Theorem C04_ciphertext_length : forall pt sec ra,
  length (rfc_up_encrypt H sec ra pt) = 16 * Nat.max 1 ((length pt + 15) / 16).
Proof. intros; apply (rfc_up_encrypt_length H H_len). Qed.
Theorem C04_new_user_password_refuses : forall pt sec ra,
  128 < length pt \/ sec = [] \/ length ra <> 16 -> exists e, new_user_password H pt sec ra = Err e.
Proof. exact (new_user_password_refuses H H_len). Qed.
Theorem C04_user_password_is_rfc_decrypt : forall a sec ra,
  16 <= length a <= 128 -> length a mod 16 = 0 -> sec <> [] -> length ra = 16 ->
  user_password H a sec ra = Ok (rfc_up_decrypt H sec ra a).
Proof. exact (user_password_is_rfc_decrypt H H_len). Qed.
Theorem C04_user_password_rejects : forall a sec ra,
  length a < 16 \/ 128 < length a \/ length a mod 16 <> 0 \/ sec = [] \/ length ra <> 16 ->
  exists e, user_password H a sec ra = Err e.
Proof. exact (user_password_rejects H H_len). Qed.
(* the plaintext up to its first NUL comes back (all of it when NUL-free: take_until_nul_id) *)
Theorem C04_user_password_roundtrip : forall pt sec ra,
  length pt <= 128 -> sec <> [] -> length ra = 16 ->
  exists c, new_user_password H pt sec ra = Ok c /\ user_password H c sec ra = Ok (take_until_nul pt).
Proof. exact (user_password_roundtrip H H_len). Qed.
Theorem C04_nul_free_returns_all : forall l, ~ In 0%N l -> take_until_nul l = l.
Proof. exact take_until_nul_id. Qed.
Theorem C04_oracles : forall pt sec ra,
  new_user_password H pt sec ra = spec_new_user_password H pt sec ra /\
  user_password H pt sec ra = spec_user_password H pt sec ra.
Proof. intros; split; [apply (new_user_password_eq_spec H H_len) | apply (user_password_eq_spec H H_len)]. Qed.
End S.

(* non-vacuity with the executable MD5: a 3-block password exercises the chaining *)
Example C04_example :
  let pt := map N.of_nat (seq 65 40) in
  let sec := [120; 121]%N in let ra := repeat 7%N 16 in
  match new_user_password md5 pt sec ra with
  | Ok c => length c = 48 /\ user_password md5 c sec ra = Ok pt /\
            skipn 16 c = xor_pad (md5 (sec ++ firstn 16 c)) (firstn 16 (skipn 16 pt)) ++
                         xor_pad (md5 (sec ++ firstn 16 (skipn 16 c))) (skipn 32 pt)
  | _ => False
  end.
Proof. vm_compute. repeat split. Qed.

Print Assumptions C04_new_user_password_is_rfc.
Print Assumptions C04_ciphertext_length.
Print Assumptions C04_new_user_password_refuses.
Print Assumptions C04_user_password_is_rfc_decrypt.
Print Assumptions C04_user_password_rejects.
Print Assumptions C04_user_password_roundtrip.
Print Assumptions C04_nul_free_returns_all.
Print Assumptions C04_oracles.
