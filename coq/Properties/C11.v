(* Properties/C11.v — Tunnel-Password salt encryption conforms to RFC 2868 s3.5,
   fits, and round-trips; for every hash H with 16-byte output. *)
From Radius Require Import Base.Bytes Base.Res Model.Passwords Spec.C04 Spec.C11 Proofs.TunnelPassword Crypto.MD5.
Open Scope nat_scope.

Section S.
Variable H : bytes -> bytes.
Hypothesis H_len : forall x, length (H x) = 16.

Theorem C11_new_tp_is_rfc : forall pw salt sec ra,
  length pw <= tp_max_password -> salt_ok salt = true -> sec <> [] -> length ra = 16 ->
  new_tunnel_password H pw salt sec ra = Ok (rfc_tp_encrypt H sec ra salt pw).
Proof. exact (new_tunnel_password_is_rfc H H_len). Qed.
Theorem C11_new_tp_refuses : forall pw salt sec ra,
  tp_max_password < length pw \/ salt_ok salt = false \/ sec = [] \/ length ra <> 16 ->
  exists e, new_tunnel_password H pw salt sec ra = Err e.
Proof. exact (new_tunnel_password_refuses H H_len). Qed.
(* whatever it returns fits, with a tag byte, in one attribute value *)
Theorem C11_tp_fits : forall pw salt sec ra a,
  new_tunnel_password H pw salt sec ra = Ok a -> 1 + length a <= 253.
Proof. exact (tp_fits H H_len). Qed.
Theorem C11_tp_roundtrip : forall pw salt sec ra,
  length pw <= tp_max_password -> salt_ok salt = true -> sec <> [] -> length ra = 16 ->
  exists a, new_tunnel_password H pw salt sec ra = Ok a /\ tunnel_password H a sec ra = Ok (pw, salt).
Proof. exact (tunnel_password_roundtrip H H_len). Qed.
Theorem C11_tp_decode_rejects : forall a sec ra,
  252 < length a \/ length a < 18 \/ (length a - 2) mod 16 <> 0 \/ sec = [] \/ length ra <> 16 \/
  salt_ok (firstn 2 a) = false -> exists e, tunnel_password H a sec ra = Err e.
Proof. exact (tunnel_password_decode_rejects H H_len). Qed.
(* exact decoder: RFC decryption, embedded length checked against the data; never panics *)
Theorem C11_tp_decode_exact : forall a sec ra,
  tunnel_password H a sec ra = spec_tunnel_password H a sec ra /\
  tunnel_password H a sec ra <> Panic /\ tunnel_password H a sec ra <> OutOfFuel.
Proof.
  intros; split; [apply (tunnel_password_eq_spec H H_len)|apply (tunnel_password_no_panic H H_len)].
Qed.
Theorem C11_oracle_encrypt : forall pw salt sec ra,
  new_tunnel_password H pw salt sec ra = spec_new_tunnel_password H pw salt sec ra.
Proof. exact (new_tunnel_password_eq_spec H H_len). Qed.
End S.

(* the generated helpers force the salt's high bit: salt[0] |= 1 << 7 *)
Theorem C11_generated_salt_highbit : forall s0 s1, (s0 < 256)%N -> salt_ok [N.lor s0 128; s1] = true.
Proof.
  intros s0 s1 Hs. cbn [salt_ok]. apply N.leb_le.
  assert (Hb : N.testbit (N.lor s0 128) 7 = true) by (rewrite N.lor_spec; apply orb_true_r).
  assert (Hlt : (N.lor s0 128 < 256)%N).
  { destruct (N.eq_dec (N.lor s0 128) 0) as [E|E]; [rewrite E; reflexivity|].
    change 256%N with (2 ^ 8)%N. apply N.log2_lt_pow2; [destruct (N.lor s0 128); [congruence|reflexivity]|].
    rewrite N.log2_lor. apply N.max_lub_lt; [|reflexivity].
    destruct (N.eq_dec s0 0) as [E0|E0]; [subst; reflexivity|].
    apply N.log2_lt_pow2; [destruct s0; [congruence|reflexivity]|exact Hs]. }
  rewrite N.mod_small by exact Hlt.
  destruct (N.le_gt_cases 128 (N.lor s0 128)) as [Hle|Hgt]; [exact Hle|].
  exfalso. assert (Hf : N.testbit (N.lor s0 128) 7 = false).
  { destruct (N.eq_dec (N.lor s0 128) 0) as [E|E]; [rewrite E; reflexivity|].
    apply N.bits_above_log2. apply N.log2_lt_pow2; [destruct (N.lor s0 128); [congruence|reflexivity]|exact Hgt]. }
  congruence.
Qed.

Example C11_example :
  let pw := map N.of_nat (seq 33 20) in
  let sec := [120; 121]%N in let ra := repeat 7%N 16 in let salt := [200; 1]%N in
  match new_tunnel_password md5 pw salt sec ra with
  | Ok a => length a = 34 /\ tunnel_password md5 a sec ra = Ok (pw, salt) /\
            (exists e, new_tunnel_password md5 (repeat 1%N 240) salt sec ra = Err e) /\
            (exists a', new_tunnel_password md5 (repeat 1%N 239) salt sec ra = Ok a' /\ length a' = 242)
  | _ => False
  end.
Proof. vm_compute. repeat split; eexists; try split; reflexivity. Qed.

Print Assumptions C11_new_tp_is_rfc.
Print Assumptions C11_new_tp_refuses.
Print Assumptions C11_tp_fits.
Print Assumptions C11_tp_roundtrip.
Print Assumptions C11_tp_decode_rejects.
Print Assumptions C11_tp_decode_exact.
Print Assumptions C11_oracle_encrypt.
Print Assumptions C11_generated_salt_highbit.
