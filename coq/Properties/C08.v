(* Properties/C08.v — Exchange always terminates, honours its context, resends
   verbatim, leaks nothing.  PARTIAL: proved on the lifecycle model of
   Model/Exchange.v for every event sequence; real time ("promptly", "at the
   configured interval"), the OS socket layer and goroutine reclamation are
   observed by the harness, not proved. *)
From Radius Require Import Base.Bytes Base.Res Model.Attrs Model.Packet Model.Client Model.Exchange Proofs.Exchange Proofs.ExchangeShape Proofs.ExchangeLabels.
Open Scope nat_scope.

Section S.
Variable H : bytes -> bytes.
Variable retry max_errors : Z.
Variable skip_verify : bool.
Variable request : packet.
Notation step := (xstep H retry max_errors skip_verify request).
Notation run := (xrun H retry max_errors skip_verify request).

Theorem C08_invariant : forall es, XInv H retry request (run xinit es).
Proof. intros es. apply xrun_inv, xinv_init. Qed.

(* every datagram ever sent is the byte-identical encoding of the request *)
Theorem C08_sends_are_wire : forall es w, In w (sent (run xinit es)) -> encode H request = Ok w.
Proof. exact (sends_are_wire H retry max_errors skip_verify request). Qed.

(* never a retransmission when the interval is zero or negative *)
Theorem C08_no_retry_when_nonpositive : forall es, (retry <= 0)%Z -> length (sent (run xinit es)) <= 1.
Proof. exact (no_retry_when_nonpositive H retry max_errors skip_verify request). Qed.

(* after it has returned: nothing more is sent, the socket is closed, the helper can only exit *)
Theorem C08_nothing_after_return : forall s e, XInv H retry request s -> returned s = true ->
  sent (step s e) = sent s /\ conn_closed (step s e) = true /\ returned (step s e) = true /\
  (xhelper (step s e) = xhelper s \/ xhelper (step s e) = Hp_exited).
Proof. exact (nothing_after_return H retry max_errors skip_verify request). Qed.

(* cancellation wins within two internal steps, whatever arrives meanwhile *)
Theorem C08_returns_after_ctx_done : forall s, XInv H retry request s -> ctx_done s = true ->
  (exists c, xmain s = M_reading c) -> xhelper s = Hp_running ->
  xmain (step (step s XHelper) XStep) = M_returned XCtxErr.
Proof. exact (returns_after_ctx_done H retry max_errors skip_verify request). Qed.
Theorem C08_flood_cannot_starve_cancellation : forall s d, XInv H retry request s -> derived_done s = true ->
  conn_closed s = true -> (exists c, xmain s = M_reading c) ->
  step s (XDatagram d) = s /\ returned (step s XStep) = true.
Proof. exact (flood_cannot_starve_cancellation H retry max_errors skip_verify request). Qed.

Theorem C08_dial_failure_maps_to_ctx : forall s, xmain s = M_dialled ->
  xmain (step s XDialFail) = M_returned (if ctx_done s then XCtxErr else XNetErr).
Proof. exact (dial_failure_maps_to_ctx H retry max_errors skip_verify request). Qed.
(* for EVERY state of the model (no invariant assumed) and every event: the caller's context, the derived context and
   the socket's closed flag are one-way; a step either leaves the list of datagrams written untouched or appends
   exactly one datagram, which is the request as encoded, and it does so only on an open socket and only at one of
   the two send sites (the calling goroutine's first write after dialling; a tick taken by the running helper while
   the ticker is not stopped) *)
Theorem C08_label_table : forall s e,
  (ctx_done s = true -> ctx_done (step s e) = true) /\
  (derived_done s = true -> derived_done (step s e) = true) /\
  (conn_closed s = true -> conn_closed (step s e) = true) /\
  (sent (step s e) = sent s \/
   exists w, encode H request = Ok w /\ sent (step s e) = sent s ++ [w] /\ conn_closed s = false /\ send_site s e).
Proof. exact (exchange_label_table_holds H retry max_errors skip_verify request). Qed.
End S.

From Radius Require Import Crypto.MD5.
Example C08_example :
  let rq := mkpacket 1 7 (repeat 5%N 16) [115]%N [] in
  let s := xrun md5 5 0 false rq xinit [XStep; XStep; XTick; XDatagram [1; 2; 3]%N; XTick; XCtxDone; XDatagram [9]%N; XHelper; XTick; XStep; XTick] in
  xmain s = M_returned XCtxErr /\ length (sent s) = 3 /\ conn_closed s = true /\ xhelper s = Hp_exited /\
  length (sent (xrun md5 0 0 false rq xinit [XStep; XStep; XTick; XTick])) = 1.
Proof. vm_compute. repeat split. Qed.

(* Client.Exchange as written performs the operations of the model in the model's order on every path: encode before
   dial, one write before the helper goroutine exists, the helper writes only on a tick and closes the socket when the
   context ends, every return after a successful dial runs Stop / cancel / Close (Proofs/ExchangeShape.v; the skeleton
   is read from the working tree on every run) *)
Theorem C08_code_order : exchange_order.
Proof. exact exchange_order_holds. Qed.

(* ... and these are all the paths: every list of decisions long enough to reach the end of any path through the
   skeleton yields one of the model's traces *)
Theorem C08_code_paths_complete : exchange_paths_complete.
Proof. exact exchange_paths_complete_holds. Qed.

Print Assumptions C08_invariant.
Print Assumptions C08_sends_are_wire.
Print Assumptions C08_no_retry_when_nonpositive.
Print Assumptions C08_nothing_after_return.
Print Assumptions C08_returns_after_ctx_done.
Print Assumptions C08_flood_cannot_starve_cancellation.
Print Assumptions C08_dial_failure_maps_to_ctx.
Print Assumptions C08_code_order.
Print Assumptions C08_code_paths_complete.
Print Assumptions C08_label_table.
