(* Properties/C20.v — Dictionary Merge is a conflict-checked union that never
   modifies its inputs.  Vendors are heap cells (a Dictionary holds *Vendor
   pointers); "never modifies" = every cell that existed before the call keeps
   its contents (the heap only grows). *)
From Radius Require Import Base.Bytes Base.Res Model.Dict Model.DictMerge Proofs.DictMerge.
Open Scope nat_scope.

Theorem C20_merge_preserves_inputs : forall h d1 d2 h' d,
  merge false h d1 d2 = Ok (h', d) -> exists ext, h' = h ++ ext.
Proof. exact merge_preserves_inputs. Qed.
Theorem C20_inputs_usable_afterwards : forall h d1 d2 h' d dx,
  merge false h d1 d2 = Ok (h', d) -> Forall (fun p => p < length h) (p_vendors dx) -> view h' dx = view h dx.
Proof. exact merge_inputs_view_unchanged. Qed.
Theorem C20_merge_chain_preserves : forall ds h acc h' d,
  merge_chain h acc ds = Ok (h', d) -> exists ext, h' = h ++ ext.
Proof. exact merge_chain_preserves. Qed.

(* success iff neither checking loop finds a conflict; the attribute conflict is
   "same name or same number as an attribute of the first input" *)
Theorem C20_merge_ok_iff : forall h d1 d2,
  (exists r, merge false h d1 d2 = Ok r) <->
  check_attrs d1 d2 = false /\ check_vendors h d1 (p_vendors d2) = None.
Proof. exact merge_ok_iff. Qed.
Theorem C20_attr_conflict_spec : forall ex a, attr_clash ex a = true <->
  (exists b, In b ex /\ (a_name b = a_name a \/ oid_eqb (a_oid b) (a_oid a) = true)).
Proof. exact attr_clash_spec. Qed.

(* contents *)
Theorem C20_merge_contents : forall h d1 d2 h' d, merge false h d1 d2 = Ok (h', d) ->
  p_attrs d = p_attrs d1 ++ p_attrs d2 /\ p_values d = p_values d1 ++ p_values d2.
Proof. exact merge_contents_flat. Qed.
Theorem C20_vendor_unmatched_appended : forall h ps p r,
  index_by_number h ps (vn_number (deref h p)) 0 = None ->
  assemble false h ps (p :: r) = assemble false h (ps ++ [p]) r.
Proof. exact assemble_unmatched. Qed.
Theorem C20_vendor_matched_combined : forall h ps p r i,
  index_by_number h ps (vn_number (deref h p)) 0 = Some i ->
  let e := deref h (nth i ps 0) in let v := deref h p in
  assemble false h ps (p :: r) =
  assemble false (h ++ [mkvendor (vn_name e) (vn_number e) (vn_format e) (vn_attrs e ++ vn_attrs v) (vn_values e ++ vn_values v)])
           (update_at i (length h) ps) r.
Proof. exact assemble_matched. Qed.

(* the original code (append through the first input's *Vendor) is refuted *)
Theorem C20_legacy_merge_modifies_first_input :
  exists h' d, merge true ex_heap (mkpdict [] [] [0]) (mkpdict [] [] [1]) = Ok (h', d) /\
               deref h' 0 <> deref ex_heap 0.
Proof. exact legacy_merge_modifies_first_input. Qed.

Print Assumptions C20_merge_preserves_inputs.
Print Assumptions C20_inputs_usable_afterwards.
Print Assumptions C20_merge_chain_preserves.
Print Assumptions C20_merge_ok_iff.
Print Assumptions C20_attr_conflict_spec.
Print Assumptions C20_merge_contents.
Print Assumptions C20_vendor_unmatched_appended.
Print Assumptions C20_vendor_matched_combined.
Print Assumptions C20_legacy_merge_modifies_first_input.
