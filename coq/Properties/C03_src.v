(* Properties/C03_src.v — IsAuthenticRequest/IsAuthenticResponse/Encode/Response as written compute the RFC authenticators of Spec/C03.v (H = MD5), for all inputs.
   Statements about the translation of the Go source itself (Gen/Src.v, regenerated from
   /repo on every run by srcfacts/golite.go) under the interpreter of Base/GoLite.v.  [fn t] is the
   translated function, or a function that panics at once when the translator refused it. *)
From Coq Require Import String.
From Radius Require Import Base.Bytes Base.Res Base.Guard Base.GoLite Gen.Src Crypto.MD5 Model.SrcRun Proofs.SrcBase Proofs.SrcCtx Model.Attrs Spec.C09 Spec.C01 Spec.C03 Proofs.SrcDefs Proofs.SrcAuth Proofs.SrcMarshal Proofs.SrcEncode.
Open Scope list_scope.
Open Scope nat_scope.

Theorem C03_src_Response_spec : forall cx n c i auth secret attrs code,
  length auth = 16 ->
  run cx n (fn src_Packet_Response) [VRec [VInt c; VInt i; VBytes auth; secret; attrs]; VInt code] =
  Some (Some (VRec [VInt code; VInt i; VBytes auth; secret; VNil])).
Proof. exact src_Response_spec. Qed.
Print Assumptions C03_src_Response_spec.

Theorem C03_program_IsAuthenticResponse : forall fuel r q sec,
  is_slice_val sec ->
  src_run "IsAuthenticResponse" fuel [VBytes r; VBytes q; sec] =
  Some (Some (VBool (spec_is_authentic_response md5 r q (bytes_val sec)))).
Proof. exact program_IsAuthenticResponse. Qed.
Print Assumptions C03_program_IsAuthenticResponse.

Theorem C03_program_IsAuthenticRequest : forall fuel q sec,
  is_slice_val sec ->
  src_run "IsAuthenticRequest" fuel [VBytes q; sec] =
  Some (Some (VBool (spec_is_authentic_request md5 q (bytes_val sec)))).
Proof. exact program_IsAuthenticRequest. Qed.
Print Assumptions C03_program_IsAuthenticRequest.

Theorem C03_program_Encode : forall fuel c i auth secret sec vl,
  Forall is_avp vl -> length vl < fuel -> (0 <= i < 256)%Z -> length auth = 16 -> as_bytes secret = Some sec ->
  src_run "Packet.Encode" fuel [vpacket c i auth secret vl] = Some (Some (encode_result c i auth sec vl)).
Proof. exact program_Encode. Qed.
Print Assumptions C03_program_Encode.

Theorem C03_encode_result_spec : forall c i auth sec vl,
  Forall is_avp vl -> (0 <= i)%Z ->
  encode_result c i auth sec vl =
  match spec_encode md5 c (Z.to_N i) auth sec (abs_attrs vl) with
  | Ok w => VTup [VBytes w; VNil]
  | _ => VTup [VNil; VErr]
  end.
Proof. exact encode_result_spec. Qed.
Print Assumptions C03_encode_result_spec.

(* non-vacuity: an Accounting-Request encoded by the translated Encode is accepted by the translated
   IsAuthenticRequest, and no longer after one flipped bit *)
Example C03_src_example :
  match src_run "Packet.Encode" 100 [vpacket 4 9 (repeat 0%N 16) (VBytes [115; 101; 99]%N) [vavp 1 (VBytes [97]%N)]] with
  | Some (Some (VTup [VBytes w; VNil])) =>
      src_run "IsAuthenticRequest" 100 [VBytes w; VBytes [115; 101; 99]%N] = Some (Some (VBool true)) /\
      src_run "IsAuthenticRequest" 100 [VBytes (2%N :: tl w); VBytes [115; 101; 99]%N] = Some (Some (VBool false)) /\
      src_run "IsAuthenticRequest" 100 [VBytes w; VBytes [115; 101]%N] = Some (Some (VBool false))
  | _ => False
  end.
Proof. vm_compute. repeat split; reflexivity. Qed.
