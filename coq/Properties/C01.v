(* Properties/C01.v — Wire codec: Parse and MarshalBinary/Encode are mutual inverses. *)
From Radius Require Import Base.Bytes Base.Res Model.Attrs Model.Packet Spec.C09 Spec.C01
  Proofs.AttrsWire Proofs.PacketWire Proofs.Auth Spec.C03.
Open Scope nat_scope.

(* The parser accepts a byte string iff |b| >= 20, Length in [20,4096], Length <= |b|
   and bytes 20..Length are gap-free TLVs with every length >= 2. *)
Theorem C01_parse_accepts_iff : forall b s, (exists p, parse b s = Ok p) <-> accepts b.
Proof. exact parse_accepts_iff. Qed.

(* the same for the bare attribute list, with the parsed list made explicit *)
Theorem C01_parse_attrs_iff : forall b l, parse_attrs b = Ok l <-> tlvs b l.
Proof. exact parse_attrs_iff. Qed.

(* Re-encoding the parsed packet reproduces exactly the first Length bytes. *)
Theorem C01_parse_marshal : forall b s p, bytes_ok b -> parse b s = Ok p ->
  marshal p = Ok (firstn (length_field b) b) /\ packet_wf p /\ secret p = s.
Proof. exact parse_marshal. Qed.

(* Octets beyond Length are ignored as padding. *)
Theorem C01_parse_ignores_padding : forall b s p pad,
  parse b s = Ok p -> parse (firstn (length_field b) b ++ pad) s = Ok p.
Proof. exact parse_ignores_padding. Qed.

(* Every packet the encoder accepts parses back to the same code, identifier,
   authenticator and attribute sequence, out-of-range types omitted. *)
Theorem C01_marshal_parse : forall p s w,
  (0 <= code p <= 255)%Z -> length (auth p) = 16 -> marshal p = Ok w ->
  parse w s = Ok (wire_view p s).
Proof. exact marshal_parse. Qed.

(* The encoder accepts exactly: values <= 253 bytes (for wire-visible types), total <= 4096. *)
Theorem C01_marshal_accepts : forall p,
  forallb value_fits (pattrs p) = true -> 20 + length (spec_wire (pattrs p)) <= 4096 ->
  exists w, marshal p = Ok w.
Proof. exact marshal_accepts. Qed.
Theorem C01_marshal_refuses : forall p,
  (exists a, In a (pattrs p) /\ in_range a = true /\ 253 < length (aval a)) \/
  4096 < 20 + length (spec_wire (pattrs p)) ->
  exists e, marshal p = Err e.
Proof. exact marshal_refuses. Qed.

(* Never a truncated or mis-sized datagram. *)
Theorem C01_marshal_size : forall p w, length (auth p) = 16 -> marshal p = Ok w ->
  length w = 20 + length (spec_wire (pattrs p)) /\ length_field w = length w /\ length w <= 4096.
Proof. exact marshal_size. Qed.

(* Encode is MarshalBinary except for the authenticator field (C03), and fails when it fails. *)
Theorem C01_encode_error : forall H p e, marshal p = Err e -> encode H p = Err e.
Proof. exact encode_marshal_error. Qed.

(* Neither direction panics or exceeds its iteration bound. *)
Theorem C01_no_panic : forall b s p,
  (parse b s <> Panic /\ parse b s <> OutOfFuel) /\ (marshal p <> Panic /\ marshal p <> OutOfFuel).
Proof. intros; split; [apply parse_no_panic | apply marshal_no_panic]. Qed.

(* non-vacuity: an accepted datagram with padding, a zero-length value; a refused one *)
Example C01_example :
  let b := [1; 7; 0; 25; 1;2;3;4;5;6;7;8;9;10;11;12;13;14;15;16; 5; 2; 6; 3; 9; 99; 99]%N in
  parse b [] = Ok (mkpacket 1 7 [1;2;3;4;5;6;7;8;9;10;11;12;13;14;15;16]%N [] [mkavp 5 []; mkavp 6 [9%N]])
  /\ (exists e, parse (firstn 24 b) [] = Err e)
  /\ marshal (mkpacket 1 7 (repeat 0%N 16) [] [mkavp 300 (repeat 1%N 300); mkavp 1 (repeat 1%N 253)])
     = Ok ([1; 7; 1; 19]%N ++ repeat 0%N 16 ++ [1; 255]%N ++ repeat 1%N 253).
Proof. vm_compute. repeat split. eexists; reflexivity. Qed.

Print Assumptions C01_parse_accepts_iff.
Print Assumptions C01_parse_attrs_iff.
Print Assumptions C01_parse_marshal.
Print Assumptions C01_parse_ignores_padding.
Print Assumptions C01_marshal_parse.
Print Assumptions C01_marshal_accepts.
Print Assumptions C01_marshal_refuses.
Print Assumptions C01_marshal_size.
Print Assumptions C01_encode_error.
Print Assumptions C01_no_panic.

(* the executable oracles used by the counterexample search are the models *)
From Radius Require Import Proofs.Oracles.
Theorem C01_oracles : forall b s p,
  parse b s = bind (spec_parse b s) (fun t => Ok (pkt_of_tuple t)) /\
  parse_attrs b = spec_tlv_dec b /\
  marshal p = spec_marshal (code p) (ident p) (auth p) (pattrs p).
Proof. intros; repeat split; [apply parse_eq_spec | apply parse_attrs_eq_spec | apply marshal_eq_spec]. Qed.
Print Assumptions C01_oracles.
