(* Properties/C05.v — Client returns only authentic replies; bad datagrams are
   counted, not trusted.  H is any hash (the authenticity predicate is C03's). *)
From Radius Require Import Base.Bytes Base.Res Model.Attrs Model.Packet Model.Client
  Spec.C01 Spec.C03 Spec.C05 Proofs.Oracles Proofs.Client Proofs.ExchangeShape.
Open Scope nat_scope.

Section S.
Variable H : bytes -> bytes.
Variable max_errors : Z.
Variable skip_verify : bool.
Variable wire sec : bytes.

(* the Go receive loop computes the verdict-based specification, for every
   datagram history and every configuration *)
Theorem C05_exchange_recv_spec : forall ds,
  same (exchange_recv H max_errors skip_verify wire sec ds)
       (spec_exchange_recv H max_errors skip_verify wire sec ds).
Proof. exact (exchange_recv_spec H max_errors skip_verify wire sec). Qed.

(* a verdict is Acceptable only if the datagram parses and (unless verification
   is disabled) carries a valid response authenticator for the request sent *)
Theorem C05_acceptable_means_authentic : forall d t,
  classify H skip_verify wire sec d = Acceptable t ->
  spec_parse (firstn 4096 d) sec = Ok t /\
  (skip_verify = true \/ spec_is_authentic_response H (firstn 4096 d) wire sec = true).
Proof.
  intros d t. unfold classify. destruct (spec_parse (firstn 4096 d) sec) as [t'| | |]; try discriminate.
  destruct skip_verify; cbn [orb].
  - intros E; inversion E; auto.
  - destruct (spec_is_authentic_response H (firstn 4096 d) wire sec) eqn:Ea; [|discriminate].
    intros E; inversion E; auto.
Qed.

(* only the parse of an acceptable datagram is ever returned, and it is the first such *)
Theorem C05_returns_only_acceptable : forall vs b seen i t j,
  spec_recv vs b seen i = SReturned t j ->
  i <= j /\ nth_error vs (j - i) = Some (Acceptable t) /\
  forallb (fun v => negb (is_acc v)) (firstn (j - i) vs) = true.
Proof. exact spec_recv_returned. Qed.
Theorem C05_returns_first_acceptable : forall vs b seen i k t,
  nth_error vs k = Some (Acceptable t) ->
  forallb (fun v => negb (is_acc v)) (firstn k vs) = true ->
  (match b with Some n => k < Nat.max 1 n | None => True end) ->
  spec_recv vs b seen i = SReturned t (i + k).
Proof. exact spec_recv_first_acceptable. Qed.
(* failure: exactly at the max-th bad datagram, with that datagram's error *)
Theorem C05_fails_iff_budget : forall vs b seen i e j,
  spec_recv vs (Some b) seen i = SFailed e j ->
  i <= j /\ nth_error vs (j - i) = Some (Bad e) /\
  forallb (fun v => negb (is_acc v)) (firstn (j - i) vs) = true /\ S (j - i) = Nat.max 1 b.
Proof. exact spec_recv_failed. Qed.
Theorem C05_zero_budget_never_fails : forall vs seen i e j, spec_recv vs None seen i <> SFailed e j.
Proof. exact spec_recv_unlimited. Qed.
End S.

From Radius Require Import Crypto.MD5 Model.Attrs.
(* non-vacuity: garbage, a forged reply, then the genuine one *)
Example C05_example :
  let sec := [115; 51]%N in
  let wire := [1; 9; 0; 20]%N ++ repeat 5%N 16 in
  let good := match encode md5 (mkpacket 2 9 (repeat 5%N 16) sec [mkavp 18 [104; 105]%N]) with Ok w => w | _ => [] end in
  let forged := firstn 22 good ++ [200%N] ++ skipn 23 good in
  match exchange_recv md5 3 false wire sec [[1; 2; 3]%N; forged; good],
        exchange_recv md5 2 false wire sec [[1; 2; 3]%N; forged; good],
        exchange_recv md5 0 true wire sec [[1; 2; 3]%N; forged; good] with
  | Returned _ 2, Failed 9 1, Returned _ 1 => True
  | _, _, _ => False
  end.
Proof. vm_compute. exact I. Qed.

(* the receive loop as written: read, then count one error per datagram that does not parse or is not authentic, test
   the budget after counting, return the first reply that passes (Proofs/ExchangeShape.v) *)
Theorem C05_code_order : exchange_order.
Proof. exact exchange_order_holds. Qed.

(* ... and these are all the paths: every list of decisions long enough to reach the end of any path through the
   skeleton yields one of the model's traces *)
Theorem C05_code_paths_complete : exchange_paths_complete.
Proof. exact exchange_paths_complete_holds. Qed.

Print Assumptions C05_exchange_recv_spec.
Print Assumptions C05_acceptable_means_authentic.
Print Assumptions C05_returns_only_acceptable.
Print Assumptions C05_returns_first_acceptable.
Print Assumptions C05_fails_iff_budget.
Print Assumptions C05_zero_budget_never_fails.
Print Assumptions C05_code_order.
Print Assumptions C05_code_paths_complete.
